package main

// Exec: one path execution (re-executed from the start for every path,
// steered by a decision prefix), the cooperative goroutine scheduler and the
// solver-backed decision procedures (branch, choose, concretize).

import (
	"fmt"
	"os"
	"go/types"
	"sort"
	"strings"

	"golang.org/x/tools/go/ssa"
)

// Dec is one recorded decision.
type Dec struct {
	V uint64 // chosen alternative (branch: 0/1; choose: index; concretize: value)
	K byte   // 'b' branch, 'c' choose, 'z' concretize-hit, 'n' concretize-miss
}

var schedTrace = os.Getenv("GOSX_SCHEDTRACE") != ""

type pathEnd struct {
	kind string // infeasible | violation | unsupported | unwind | inconclusive | abort | done
	msg  string
}

type abortPath struct{}

// targetPanic is a Go panic inside the interpreted program.
type targetPanic struct {
	v Value
}

type Goroutine struct {
	id    int
	wake  chan struct{}
	ready func() bool
	done  bool
	name  string
	waitDesc string
}

type NondetRec struct {
	Tag  string
	Var  *Term
	Kind string // u8,u16,u32,u64,bool,choice
	Val  uint64 // for choice: concrete
}

type Violation struct {
	Kind    string // assert | panic | deadlock | wedge
	Msg     string
	Harness string
	Model   []NondetVal
	Trace   []Dec
	Where   string
	Yields  []string
}

type NondetVal struct {
	Tag  string `json:"tag"`
	Kind string `json:"kind"`
	Val  uint64 `json:"val"`
}

type PathResult struct {
	End        pathEnd
	Violations []Violation
	Forks      [][]Dec
	Trace      []Dec
	Reach      map[string]int
	Asserts    int // assertion obligations discharged (unsat or trivially true)
	AssertsTrivial int
	Unknowns   []string
	SolverResyncs int
	Instrs     int
	FuncsHit   map[string]int
	StubsHit   map[string]int
	Assumes    map[string]int
	SolverCalls int
	SolverSecs  float64
	MaxLoop    int
	Sample     string
	Durations  []string
	CrossChecked int
	CrossUnknown int
}

type Exec struct {
	eng    *Engine
	tc     *TermCtx
	solver *Solver

	prefix []Dec
	pos    int
	trace  []Dec
	forks  [][]Dec

	globals    map[*ssa.Global]*Value
	goroutines []*Goroutine
	cur        *Goroutine
	sched      chan *Goroutine
	aborting   bool
	ended      *pathEnd
	nextChan   int

	nondets    []NondetRec
	nondetSeq  map[string]int
	res        PathResult
	unwind     int
	preempt    int
	instrBudget int
	expectDeadlock bool
	mutexes    map[*Value]*mutexState
	pcTerms    []*Term
	log        []string
	fresh      int
	errGlobals map[string]Iface
	onceDone   map[*Value]bool
	poolStash  map[*Value][]Value
	timeNow    *Term
	initDone   map[*ssa.Package]bool
	lastAfterFunc *Term
	onUnwind   int
	yieldOrder []string
	loose      []uint64 // translator validation: concrete value stream
	loosePos   int
	looseOn    bool
	wedgeMsg   string
	models     []*cachedModel
	known      map[*Term]bool // facts implied by the path condition (syntactic)
	ModelHits  int
}

type mutexState struct {
	locked bool
	readers int
}

type cachedModel struct {
	m    map[string]uint64
	memo map[*Term]uint64
}

func (cm *cachedModel) holds(t *Term) bool { return Eval(t, cm.m, cm.memo) != 0 }

// witness reports whether a cached model of the path condition satisfies t.
func (x *Exec) witness(t *Term) bool {
	for _, cm := range x.models {
		if cm.holds(t) {
			x.ModelHits++
			return true
		}
	}
	return false
}

func (x *Exec) addModel(m map[string]uint64) {
	if m == nil {
		return
	}
	cm := &cachedModel{m: m, memo: map[*Term]uint64{}}
	// the model must satisfy the whole path condition (it was obtained for it)
	x.models = append(x.models, cm)
	if len(x.models) > 6 {
		x.models = x.models[1:]
	}
}

func (x *Exec) freshVar(prefix string, w int) *Term {
	x.fresh++
	return x.tc.Var(fmt.Sprintf("%s!%d", prefix, x.fresh), w)
}

func (x *Exec) end(kind, msg string) {
	panic(pathEnd{kind, msg})
}

func (x *Exec) unsupported(format string, args ...interface{}) {
	x.end("unsupported", fmt.Sprintf(format, args...))
}

// goPanic raises a Go-level runtime panic inside the interpreted program.
func (x *Exec) goPanic(msg string) {
	panic(targetPanic{Iface{t: types.Typ[types.String], v: x.strConst(msg)}})
}

// ---------- decisions ----------

func (x *Exec) learn(t *Term, v bool) {
	if x.known == nil {
		x.known = map[*Term]bool{}
	}
	x.known[t] = v
	x.known[x.tc.BNot(t)] = !v
	if v && t.Op == OpBAnd {
		x.learn(t.Args[0], true)
		x.learn(t.Args[1], true)
	}
	if !v && t.Op == OpBOr {
		x.learn(t.Args[0], false)
		x.learn(t.Args[1], false)
	}
	if t.Op == OpBNot {
		if _, ok := x.known[t.Args[0]]; !ok {
			x.learn(t.Args[0], !v)
		}
	}
}

func (x *Exec) assertPC(t *Term) {
	if t.IsTrue() {
		return
	}
	x.learn(t, true)
	x.pcTerms = append(x.pcTerms, t)
	x.solver.Assert(t)
	// keep only cached models that still satisfy the path condition
	k := 0
	for _, cm := range x.models {
		if cm.holds(t) {
			x.models[k] = cm
			k++
		}
	}
	x.models = x.models[:k]
}

func (x *Exec) check(extra *Term, timeoutMs int, modelVars []*Term) (SatResult, map[string]uint64) {
	// always ask for the complete model: it becomes a cached witness
	all := x.tc.vars
	r, m, err := x.solver.Check(extra, timeoutMs, all)
	if err != nil && strings.Contains(err.Error(), "canceled") {
		// z3's timer of an earlier query can fire late and cancel the next
		// command ("push canceled"); the assertion stack is then out of step.
		// Rebuild the solver state from the path condition and ask once more.
		x.solver.Reset()
		for _, t := range x.pcTerms {
			x.solver.Assert(t)
		}
		x.res.SolverResyncs++
		r, m, err = x.solver.Check(extra, timeoutMs, all)
	}
	if err == nil && r == Sat {
		// variables created later default to 0 in Eval; that is only sound for
		// variables that do not occur in the path condition yet, which holds
		// because every occurring variable is in tc.vars at this point.
		x.addModel(m)
	}
	_ = modelVars
	if err != nil {
		x.res.Unknowns = append(x.res.Unknowns, err.Error())
		if strings.Contains(err.Error(), "died") {
			x.end("inconclusive", err.Error())
		}
		return Unknown, nil
	}
	return r, m
}

// branch forks on a boolean term; returns the side taken on this path.
func (x *Exec) branch(cond *Term) bool {
	if cond.IsConst() {
		return cond.Val == 1
	}
	if v, ok := x.known[cond]; ok {
		return v
	}
	if x.pos < len(x.prefix) {
		d := x.prefix[x.pos]
		x.pos++
		x.trace = append(x.trace, d)
		if d.K != 'b' {
			x.end("inconclusive", fmt.Sprintf("decision trace mismatch: want branch, have %c", d.K))
		}
		if d.V == 1 {
			x.assertPC(cond)
			return true
		}
		x.assertPC(x.tc.BNot(cond))
		return false
	}
	x.pos++
	tmo := x.eng.cfg.FeasTimeoutMs
	ncond := x.tc.BNot(cond)
	var rt, rf SatResult
	wt, wf := x.witness(cond), x.witness(ncond)
	switch {
	case wt && wf:
		rt, rf = Sat, Sat
	case wt:
		rt = Sat
		rf, _ = x.check(ncond, tmo, nil)
	case wf:
		rf = Sat
		rt, _ = x.check(cond, tmo, nil)
	default:
		rt, _ = x.check(cond, tmo, nil)
		if rt == Unsat {
			rf = Sat // PC is satisfiable by construction
		} else {
			rf, _ = x.check(ncond, tmo, nil)
		}
	}
	tOK := rt != Unsat
	fOK := rf != Unsat
	switch {
	case tOK && fOK:
		alt := append(append([]Dec{}, x.trace...), Dec{V: 0, K: 'b'})
		x.forks = append(x.forks, alt)
		x.trace = append(x.trace, Dec{V: 1, K: 'b'})
		x.assertPC(cond)
		return true
	case tOK:
		x.trace = append(x.trace, Dec{V: 1, K: 'b'})
		x.assertPC(cond)
		return true
	case fOK:
		x.trace = append(x.trace, Dec{V: 0, K: 'b'})
		x.assertPC(x.tc.BNot(cond))
		return false
	}
	x.end("infeasible", "both branch sides infeasible")
	return false
}

// choose is an unconditional n-way nondeterministic choice.
func (x *Exec) looseNext() uint64 {
	if x.loosePos < len(x.loose) {
		v := x.loose[x.loosePos]
		x.loosePos++
		return v
	}
	return 0
}

func (x *Exec) choose(n int, tag string) int {
	if n <= 1 {
		return 0
	}
	if x.looseOn {
		return 0 // engine-internal choices (map order, select, scheduling) take the first alternative
	}
	if x.pos < len(x.prefix) {
		d := x.prefix[x.pos]
		x.pos++
		x.trace = append(x.trace, d)
		if d.K != 'c' {
			x.end("inconclusive", fmt.Sprintf("decision trace mismatch: want choose(%s), have %c", tag, d.K))
		}
		return int(d.V)
	}
	x.pos++
	for i := n - 1; i >= 1; i-- {
		alt := append(append([]Dec{}, x.trace...), Dec{V: uint64(i), K: 'c'})
		x.forks = append(x.forks, alt)
	}
	x.trace = append(x.trace, Dec{V: 0, K: 'c'})
	return 0
}

// concretize forks over the feasible values of t.
func (x *Exec) concretize(t *Term) uint64 {
	for guard := 0; ; guard++ {
		if t.IsConst() {
			return t.Val
		}
		if guard > 4096 {
			x.end("unwind", "concretize: more than 4096 values for "+t.String())
		}
		if x.pos < len(x.prefix) {
			d := x.prefix[x.pos]
			x.pos++
			x.trace = append(x.trace, d)
			c := x.tc.Const(t.W, d.V)
			switch d.K {
			case 'z':
				x.assertPC(x.tc.Eq(t, c))
				return d.V
			case 'n':
				x.assertPC(x.tc.BNot(x.tc.Eq(t, c)))
				continue
			}
			x.end("inconclusive", fmt.Sprintf("decision trace mismatch: want concretize, have %c", d.K))
		}
		x.pos++
		// obtain a candidate value
		probe := x.freshVar("cz", t.W)
		if t.W == 0 {
			x.end("unsupported", "concretize of bool")
		}
		x.solver.Assert(x.tc.Eq(probe, t))
		r, m := x.check(nil, x.eng.cfg.AssertTimeoutMs, []*Term{probe})
		if r != Sat {
			if r == Unsat {
				x.end("infeasible", "concretize: no value")
			}
			x.end("inconclusive", "concretize: solver unknown")
		}
		v := m[probe.Name]
		c := x.tc.Const(t.W, v)
		eq := x.tc.Eq(t, c)
		// is another value possible?
		r2, _ := x.check(x.tc.BNot(eq), x.eng.cfg.FeasTimeoutMs, nil)
		if r2 != Unsat {
			alt := append(append([]Dec{}, x.trace...), Dec{V: v, K: 'n'})
			x.forks = append(x.forks, alt)
		}
		x.trace = append(x.trace, Dec{V: v, K: 'z'})
		x.assertPC(eq)
		return v
	}
}

func (x *Exec) concreteInt(v Value) int {
	t := v.(*Term)
	if !t.IsConst() {
		c := x.concretize(t)
		return int(sext64(c, t.W))
	}
	return int(t.SVal())
}

// ---------- model extraction / violations ----------

func (x *Exec) modelVars() []*Term {
	var vs []*Term
	for _, n := range x.nondets {
		if n.Var != nil {
			vs = append(vs, n.Var)
		}
	}
	return vs
}

func (x *Exec) buildModel(m map[string]uint64) []NondetVal {
	var out []NondetVal
	for _, n := range x.nondets {
		if n.Var != nil {
			out = append(out, NondetVal{Tag: n.Tag, Kind: n.Kind, Val: m[n.Var.Name]})
		} else {
			out = append(out, NondetVal{Tag: n.Tag, Kind: n.Kind, Val: n.Val})
		}
	}
	return out
}

func (x *Exec) violation(kind, msg string, extra *Term) {
	// extra: additional constraint under which the violation occurs (nil = PC alone)
	r, m := x.check(extra, x.eng.cfg.AssertTimeoutMs, x.modelVars())
	if r == Unsat {
		return
	}
	if r == Unknown {
		x.res.Unknowns = append(x.res.Unknowns, "violation query unknown: "+msg)
		x.end("inconclusive", "unknown on violation query: "+msg)
	}
	v := Violation{Kind: kind, Msg: msg, Harness: x.eng.harnessName, Model: x.buildModel(m), Trace: append([]Dec{}, x.trace...), Where: x.where(), Yields: append([]string{}, x.yieldOrder...)}
	x.res.Violations = append(x.res.Violations, v)
	x.end("violation", msg)
}

func (x *Exec) where() string {
	if len(x.log) == 0 {
		return ""
	}
	n := len(x.log)
	if n > 12 {
		return strings.Join(x.log[n-12:], " > ")
	}
	return strings.Join(x.log, " > ")
}

// ---------- goroutines ----------

func (x *Exec) newGoroutine(name string, body func()) *Goroutine {
	g := &Goroutine{id: len(x.goroutines), wake: make(chan struct{}), name: name}
	x.goroutines = append(x.goroutines, g)
	go func() {
		<-g.wake
		defer func() {
			r := recover()
			g.done = true
			switch r := r.(type) {
			case nil:
			case abortPath:
			case pathEnd:
				if x.ended == nil {
					pe := r
					x.ended = &pe
				}
			case targetPanic:
				if x.ended == nil {
					// uncaught Go panic in the interpreted program
					func() {
						defer func() {
							if rr := recover(); rr != nil {
								if pe, ok := rr.(pathEnd); ok {
									x.ended = &pe
								} else {
									x.ended = &pathEnd{"inconclusive", fmt.Sprint(rr)}
								}
							}
						}()
						x.violation("panic", "uncaught panic: "+x.panicString(r.v), nil)
						// violation infeasible?! should not happen
						x.ended = &pathEnd{"infeasible", "panic path infeasible"}
					}()
				}
			default:
				if x.ended == nil {
					x.ended = &pathEnd{"unsupported", fmt.Sprintf("engine panic: %v\n%s", r, x.where())}
					if x.eng.cfg.Debug {
						x.ended.msg += "\n" + stackTrace()
					}
				}
			}
			x.sched <- g
		}()
		if x.aborting {
			panic(abortPath{})
		}
		body()
	}()
	return g
}

func (x *Exec) panicString(v Value) string {
	if i, ok := v.(Iface); ok {
		if s, ok := i.v.(StrV); ok {
			if c, ok := strConcrete(s); ok {
				return c
			}
		}
		if i.t != nil {
			return "(" + i.t.String() + ") " + describe(i.v)
		}
	}
	return describe(v)
}

// block parks the current goroutine until ready() holds.
func (x *Exec) block(desc string, ready func() bool) {
	g := x.cur
	g.ready = ready
	g.waitDesc = desc
	x.sched <- g
	<-g.wake
	if x.aborting {
		panic(abortPath{})
	}
	g.ready = nil
	g.waitDesc = ""
}

// yield lets the scheduler pick another goroutine (preemption point).
func (x *Exec) maybePreempt() {
	if x.preempt <= 0 {
		return
	}
	others := 0
	for _, g := range x.goroutines {
		if g != x.cur && !g.done && (g.ready == nil || g.ready()) {
			others++
		}
	}
	if others == 0 {
		return
	}
	if x.choose(2, "preempt") == 1 {
		x.preempt--
		me := x.cur
		x.block("preempted", func() bool { return true })
		_ = me
	}
}

func (x *Exec) runScheduler(main *Goroutine) {
	var last *Goroutine
	for {
		if x.ended != nil || main.done {
			break
		}
		var en []*Goroutine
		for _, g := range x.goroutines {
			if !g.done && (g.ready == nil || g.ready()) {
				en = append(en, g)
			}
		}
		if len(en) == 0 {
			x.onDeadlock()
			break
		}
		// time passes (ticker fires) only when nothing else can run
		var busy []*Goroutine
		for _, g := range en {
			if g.waitDesc != "tick" {
				busy = append(busy, g)
			}
		}
		if len(busy) > 0 {
			en = busy
		}
		var g *Goroutine
		// a preempted goroutine is never rescheduled first
		if len(en) > 1 {
			cands := en
			if last != nil && last.waitDesc == "preempted" {
				cands = nil
				for _, c := range en {
					if c != last {
						cands = append(cands, c)
					}
				}
			}
			func() {
				defer func() {
					if r := recover(); r != nil {
						if pe, ok := r.(pathEnd); ok {
							x.ended = &pe
						} else {
							panic(r)
						}
					}
				}()
				g = cands[x.choose(len(cands), "sched")]
			}()
			if x.ended != nil {
				break
			}
		} else {
			g = en[0]
		}
		last = g
		if schedTrace {
			fmt.Printf("SCHED pick g%d | %s\n", g.id, x.goroutineStates())
		}
		x.cur = g
		g.wake <- struct{}{}
		<-x.sched
	}
	// abort whatever is left
	x.aborting = true
	for _, g := range x.goroutines {
		if !g.done {
			g.wake <- struct{}{}
			<-x.sched
		}
	}
}

func (x *Exec) onDeadlock() {
	var desc []string
	for _, g := range x.goroutines {
		if !g.done {
			desc = append(desc, fmt.Sprintf("g%d(%s): %s", g.id, g.name, g.waitDesc))
		}
	}
	sort.Strings(desc)
	msg := "deadlock: all goroutines blocked: " + strings.Join(desc, "; ")
	func() {
		defer func() {
			if r := recover(); r != nil {
				if pe, ok := r.(pathEnd); ok {
					x.ended = &pe
					return
				}
				panic(r)
			}
		}()
		if x.expectDeadlock {
			x.end("done", "expected deadlock")
		}
		x.violation("deadlock", msg, nil)
		x.end("infeasible", "deadlock path infeasible")
	}()
}

func (x *Exec) goroutineStates() string {
	var d []string
	for _, g := range x.goroutines {
		st := g.waitDesc
		if g.done {
			st = "done"
		} else if g == x.cur {
			st = "running"
		}
		d = append(d, fmt.Sprintf("g%d(%s):%s", g.id, g.name, st))
	}
	return strings.Join(d, " ")
}

// sl returns the backing cells of a slice; a length-only (virtual) slice has none.
func (x *Exec) sl(s Slice) []Value {
	if s.virt != nil {
		x.unsupported("content of a length-only slice (verifVirtualBytes) is used")
	}
	return s.a
}
