package main

// One live SMT solver process per worker, driven through SMT-LIB2 text.

import (
	"bufio"
	"fmt"
	"io"
	"os/exec"
	"strconv"
	"strings"
	"time"
)

type SatResult int

const (
	Unsat SatResult = iota
	Sat
	Unknown
)

func (r SatResult) String() string { return [...]string{"unsat", "sat", "unknown"}[r] }

type Solver struct {
	name    string
	cmd     *exec.Cmd
	in      io.WriteCloser
	out     *bufio.Reader
	defined map[*Term]bool
	buf     strings.Builder
	// statistics
	Calls   int
	Seconds float64
	Errors  []string
	log     io.Writer
}

var solverArgs = map[string][]string{
	"z3":     {"z3", "-in"},
	"z3-new": {"z3-new", "-in"},
	"cvc5":   {"cvc5", "--incremental", "--lang=smt2", "--produce-models"},
}

func NewSolver(name string) (*Solver, error) {
	args, ok := solverArgs[name]
	if !ok {
		return nil, fmt.Errorf("unknown solver %q", name)
	}
	cmd := exec.Command(args[0], args[1:]...)
	in, err := cmd.StdinPipe()
	if err != nil {
		return nil, err
	}
	out, err := cmd.StdoutPipe()
	if err != nil {
		return nil, err
	}
	cmd.Stderr = cmd.Stdout
	if err := cmd.Start(); err != nil {
		return nil, err
	}
	s := &Solver{name: name, cmd: cmd, in: in, out: bufio.NewReaderSize(out, 1<<16), defined: map[*Term]bool{}}
	s.preamble()
	return s, nil
}

func (s *Solver) preamble() {
	if s.name == "cvc5" {
		s.buf.WriteString("(set-logic ALL)\n")
	}
	s.buf.WriteString("(set-option :produce-models true)\n")
}

func (s *Solver) Close() {
	s.in.Close()
	done := make(chan struct{})
	go func() { s.cmd.Wait(); close(done) }()
	select {
	case <-done:
	case <-time.After(2 * time.Second):
		s.cmd.Process.Kill()
	}
}

// Reset forgets all assertions and definitions.
func (s *Solver) Reset() {
	s.buf.WriteString("(reset)\n")
	s.preamble()
	s.defined = map[*Term]bool{}
}

// ref returns the SMT text that denotes t, emitting definitions as needed.
func (s *Solver) ref(t *Term) string {
	switch t.Op {
	case OpConst:
		return constStr(t)
	case OpVar:
		if !s.defined[t] {
			s.defined[t] = true
			fmt.Fprintf(&s.buf, "(declare-const %s %s)\n", t.Name, sortOf(t.W))
		}
		return t.Name
	}
	name := "t" + strconv.Itoa(t.id)
	if s.defined[t] {
		return name
	}
	// iterative post-order to avoid deep recursion
	type frame struct {
		t *Term
		i int
	}
	stack := []frame{{t, 0}}
	for len(stack) > 0 {
		f := &stack[len(stack)-1]
		if f.i < len(f.t.Args) {
			a := f.t.Args[f.i]
			f.i++
			if a.Op != OpConst && !s.defined[a] {
				if a.Op == OpVar {
					s.ref(a)
				} else {
					stack = append(stack, frame{a, 0})
				}
			}
			continue
		}
		x := f.t
		stack = stack[:len(stack)-1]
		if s.defined[x] {
			continue
		}
		s.defined[x] = true
		fmt.Fprintf(&s.buf, "(define-fun t%d () %s (", x.id, sortOf(x.W))
		switch x.Op {
		case OpExtract:
			fmt.Fprintf(&s.buf, "(_ extract %d %d)", x.Hi, x.Lo)
		case OpZext:
			fmt.Fprintf(&s.buf, "(_ zero_extend %d)", x.Hi)
		case OpSext:
			fmt.Fprintf(&s.buf, "(_ sign_extend %d)", x.Hi)
		default:
			s.buf.WriteString(opNames[x.Op])
		}
		for _, a := range x.Args {
			s.buf.WriteByte(' ')
			switch a.Op {
			case OpConst:
				s.buf.WriteString(constStr(a))
			case OpVar:
				s.buf.WriteString(a.Name)
			default:
				s.buf.WriteString("t" + strconv.Itoa(a.id))
			}
		}
		s.buf.WriteString("))\n")
	}
	return name
}

// Assert adds a permanent assertion (until Reset).
func (s *Solver) Assert(t *Term) {
	r := s.ref(t)
	fmt.Fprintf(&s.buf, "(assert %s)\n", r)
}

func (s *Solver) flushAndRead(marker string) ([]string, error) {
	fmt.Fprintf(&s.buf, "(echo \"%s\")\n", marker)
	text := s.buf.String()
	s.buf.Reset()
	if s.log != nil {
		io.WriteString(s.log, text)
	}
	if _, err := io.WriteString(s.in, text); err != nil {
		return nil, err
	}
	var lines []string
	for {
		line, err := s.out.ReadString('\n')
		if err != nil {
			return lines, fmt.Errorf("solver %s died: %v (%v)", s.name, err, lines)
		}
		line = strings.TrimSpace(line)
		if line == marker || line == "\""+marker+"\"" {
			return lines, nil
		}
		if line != "" {
			lines = append(lines, line)
		}
	}
}

// Check decides PC ∧ extra. If wantModel names variables, their values are
// returned when sat.
func (s *Solver) Check(extra *Term, timeoutMs int, modelVars []*Term) (SatResult, map[string]uint64, error) {
	start := time.Now()
	defer func() {
		s.Calls++
		s.Seconds += time.Since(start).Seconds()
	}()
	var r string
	if extra != nil {
		r = s.ref(extra)
	}
	for _, v := range modelVars {
		s.ref(v)
	}
	if s.name == "cvc5" {
		fmt.Fprintf(&s.buf, "(set-option :tlimit-per %d)\n", timeoutMs)
	} else {
		fmt.Fprintf(&s.buf, "(set-option :timeout %d)\n", timeoutMs)
	}
	s.buf.WriteString("(push 1)\n")
	if extra != nil {
		fmt.Fprintf(&s.buf, "(assert %s)\n", r)
	}
	s.buf.WriteString("(check-sat)\n")
	lines, err := s.flushAndRead("@@cs")
	if err != nil {
		return Unknown, nil, err
	}
	res := Unknown
	bad := false
	for _, l := range lines {
		switch {
		case l == "sat":
			res = Sat
		case l == "unsat":
			res = Unsat
		case l == "unknown":
			res = Unknown
		case strings.HasPrefix(l, "(error"):
			bad = true
			s.Errors = append(s.Errors, l)
		}
	}
	if bad {
		res = Unknown
	}
	var model map[string]uint64
	if res == Sat && len(modelVars) > 0 {
		model = map[string]uint64{}
		// ask in chunks
		for i := 0; i < len(modelVars); i += 64 {
			j := i + 64
			if j > len(modelVars) {
				j = len(modelVars)
			}
			s.buf.WriteString("(get-value (")
			for _, v := range modelVars[i:j] {
				s.buf.WriteString(v.Name)
				s.buf.WriteByte(' ')
			}
			s.buf.WriteString("))\n")
			ls, err := s.flushAndRead("@@gv")
			if err != nil {
				return Unknown, nil, err
			}
			parseModel(strings.Join(ls, " "), model)
		}
	}
	s.buf.WriteString("(pop 1)\n")
	if bad {
		return Unknown, nil, fmt.Errorf("solver error: %v", s.Errors[len(s.Errors)-1])
	}
	return res, model, nil
}

// parseModel reads "((name #x..) (name true) ...)".
func parseModel(text string, out map[string]uint64) {
	text = strings.ReplaceAll(text, "(", " ( ")
	text = strings.ReplaceAll(text, ")", " ) ")
	toks := strings.Fields(text)
	for i := 0; i+2 < len(toks); i++ {
		if toks[i] != "(" {
			continue
		}
		name := toks[i+1]
		if name == "(" || name == ")" {
			continue
		}
		val := toks[i+2]
		switch {
		case val == "true":
			out[name] = 1
		case val == "false":
			out[name] = 0
		case strings.HasPrefix(val, "#x"):
			v, _ := strconv.ParseUint(val[2:], 16, 64)
			out[name] = v
		case strings.HasPrefix(val, "#b"):
			v, _ := strconv.ParseUint(val[2:], 2, 64)
			out[name] = v
		case val == "(" && i+4 < len(toks) && toks[i+3] == "_" && strings.HasPrefix(toks[i+4], "bv"):
			v, _ := strconv.ParseUint(toks[i+4][2:], 10, 64)
			out[name] = v
		}
	}
}
