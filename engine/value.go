package main

// Value model of the symbolic interpreter. Shapes are concrete, scalars are
// terms.

import (
	"fmt"
	"go/types"
	"sort"
	"strings"

	"golang.org/x/tools/go/ssa"
)

type Value interface{}

// Scalars: *Term (bit-vector or Bool).
// Strings: StrV, concrete length, one 8-bit term per byte.
type StrV []*Term

// Pointers are Go pointers to slots (*Value); SymPtr addresses a cell of a
// scalar array through a symbolic index.
type SymPtr struct {
	arr []Value
	idx *Term // 64-bit
}

type Struct []Value
type Array []Value

// Slice shares its backing store like a Go slice does.
type Slice struct {
	a []Value
	// virt != nil: a length-only slice (content never touched): len() is this
	// 64-bit term, every access to the content stops the path as unsupported.
	virt *Term
}

type Iface struct {
	t types.Type // nil for nil interface
	v Value
}

type Tuple []Value

type Closure struct {
	fn  *ssa.Function
	env []Value
}

// MapV is an association list in insertion order.
type MapV struct {
	keys []Value
	vals []Value
	dead []bool
	live int
	kt   types.Type
	vt   types.Type
}

type ChanV struct {
	id     int
	buf    []Value
	cap    int
	closed bool
	recvq  []*sudog
	sendq  []*sudog
	et     types.Type
	ticker bool // receive is always possible (models a time.Ticker channel)
	never  bool // never becomes ready (unless closed)
}

type sudog struct {
	g       *Goroutine
	val     Value
	ok      bool
	caseIdx int
	sel     *selState
	isSend  bool
	closedPanic bool
}

type selState struct {
	fired bool
	which int
}

// iterators for Range/Next
type mapIter struct {
	m     *MapV
	order []int
	i     int
}
type strIter struct {
	s StrV
	i int
}

// Opaque carries engine-internal data inside interpreted structures
// (e.g. mutex state). It is compared by identity.
type Opaque struct {
	kind string
	data interface{}
}

func typeWidth(t types.Type) int {
	switch b := t.Underlying().(type) {
	case *types.Basic:
		switch b.Kind() {
		case types.Bool, types.UntypedBool:
			return 0
		case types.Int8, types.Uint8:
			return 8
		case types.Int16, types.Uint16:
			return 16
		case types.Int32, types.Uint32, types.UntypedRune:
			return 32
		case types.Int, types.Uint, types.Int64, types.Uint64, types.Uintptr, types.UntypedInt:
			return 64
		}
	}
	return -1
}

func isSigned(t types.Type) bool {
	if b, ok := t.Underlying().(*types.Basic); ok {
		return b.Info()&types.IsInteger != 0 && b.Info()&types.IsUnsigned == 0
	}
	return false
}

func isScalar(t types.Type) bool {
	return typeWidth(t) >= 0
}

func (x *Exec) zero(t types.Type) Value {
	switch t := t.(type) {
	case *types.Basic:
		if t.Kind() == types.UntypedNil {
			return nil
		}
		if t.Info()&types.IsString != 0 {
			return StrV(nil)
		}
		if t.Kind() == types.UnsafePointer {
			return (*Value)(nil)
		}
		if t.Info()&types.IsFloat != 0 || t.Info()&types.IsComplex != 0 {
			return &Opaque{kind: "float", data: 0.0}
		}
		w := typeWidth(t)
		if w < 0 {
			panic(fmt.Sprintf("zero: unsupported basic type %s", t))
		}
		if w == 0 {
			return x.tc.Bool(false)
		}
		return x.tc.Const(w, 0)
	case *types.Pointer:
		return (*Value)(nil)
	case *types.Array:
		a := make(Array, t.Len())
		for i := range a {
			a[i] = x.zero(t.Elem())
		}
		return a
	case *types.Named:
		return x.zero(t.Underlying())
	case *types.Alias:
		return x.zero(types.Unalias(t))
	case *types.Interface:
		return Iface{}
	case *types.Slice:
		return Slice{}
	case *types.Struct:
		s := make(Struct, t.NumFields())
		for i := range s {
			s[i] = x.zero(t.Field(i).Type())
		}
		return s
	case *types.Tuple:
		if t.Len() == 1 {
			return x.zero(t.At(0).Type())
		}
		s := make(Tuple, t.Len())
		for i := range s {
			s[i] = x.zero(t.At(i).Type())
		}
		return s
	case *types.Chan:
		return (*ChanV)(nil)
	case *types.Map:
		return (*MapV)(nil)
	case *types.Signature:
		return (*ssa.Function)(nil)
	case *types.TypeParam:
		panic("zero of type parameter")
	}
	panic(fmt.Sprintf("zero: unexpected type %T %s", t, t))
}

// copyVal implements value semantics for aggregates.
func copyVal(v Value) Value {
	switch v := v.(type) {
	case Struct:
		c := make(Struct, len(v))
		for i, f := range v {
			c[i] = copyVal(f)
		}
		return c
	case Array:
		c := make(Array, len(v))
		for i, f := range v {
			c[i] = copyVal(f)
		}
		return c
	}
	return v
}

func (x *Exec) strConst(s string) StrV {
	r := make(StrV, len(s))
	for i := 0; i < len(s); i++ {
		r[i] = x.tc.Const(8, uint64(s[i]))
	}
	return r
}

// concrete string content, ok=false if any byte is symbolic
func strConcrete(s StrV) (string, bool) {
	b := make([]byte, len(s))
	for i, t := range s {
		if !t.IsConst() {
			return "", false
		}
		b[i] = byte(t.Val)
	}
	return string(b), true
}

// equals returns a Bool term for x == y under Go semantics.
func (x *Exec) equals(t types.Type, a, b Value) *Term {
	tc := x.tc
	switch a := a.(type) {
	case *Term:
		return tc.Eq(a, b.(*Term))
	case StrV:
		bs := b.(StrV)
		if len(a) != len(bs) {
			return tc.Bool(false)
		}
		r := tc.Bool(true)
		for i := range a {
			r = tc.BAnd(r, tc.Eq(a[i], bs[i]))
		}
		return r
	case *Value:
		switch b := b.(type) {
		case *Value:
			return tc.Bool(a == b)
		case *SymPtr:
			return tc.Bool(false)
		}
		return tc.Bool(false)
	case *SymPtr:
		if bp, ok := b.(*SymPtr); ok && len(a.arr) > 0 && len(bp.arr) > 0 && &a.arr[0] == &bp.arr[0] {
			return tc.Eq(a.idx, bp.idx)
		}
		return tc.Bool(false)
	case *ChanV:
		return tc.Bool(a == b.(*ChanV))
	case *MapV:
		return tc.Bool(a == b.(*MapV))
	case *Opaque:
		return tc.Bool(a == b.(*Opaque))
	case Struct:
		bs := b.(Struct)
		st, _ := t.Underlying().(*types.Struct)
		r := tc.Bool(true)
		for i := range a {
			var ft types.Type
			if st != nil {
				if st.Field(i).Name() == "_" {
					continue
				}
				ft = st.Field(i).Type()
			}
			r = tc.BAnd(r, x.equals(ft, a[i], bs[i]))
		}
		return r
	case Array:
		bs := b.(Array)
		var et types.Type
		if at, ok := t.Underlying().(*types.Array); ok {
			et = at.Elem()
		}
		r := tc.Bool(true)
		for i := range a {
			r = tc.BAnd(r, x.equals(et, a[i], bs[i]))
		}
		return r
	case Iface:
		bi := b.(Iface)
		if a.t == nil || bi.t == nil {
			return tc.Bool(a.t == nil && bi.t == nil)
		}
		if !types.Identical(a.t, bi.t) {
			return tc.Bool(false)
		}
		if !types.Comparable(a.t) {
			x.goPanic("runtime error: comparing uncomparable type " + a.t.String())
		}
		return x.equals(a.t, a.v, bi.v)
	case *ssa.Function:
		bf, _ := b.(*ssa.Function)
		return tc.Bool(a == nil && (b == nil || bf == nil && isNilFunc(b)))
	case *Closure:
		return tc.Bool(false)
	case Slice:
		// only comparison against nil reaches here
		return tc.Bool(a.a == nil && a.virt == nil && b.(Slice).a == nil && b.(Slice).virt == nil)
	case nil:
		return tc.Bool(b == nil)
	}
	panic(fmt.Sprintf("equals: unsupported %T", a))
}

func isNilFunc(v Value) bool {
	switch f := v.(type) {
	case *ssa.Function:
		return f == nil
	case *Closure:
		return f == nil
	case nil:
		return true
	}
	return false
}

func isNilValue(v Value) bool {
	switch v := v.(type) {
	case nil:
		return true
	case *Value:
		return v == nil
	case *ChanV:
		return v == nil
	case *MapV:
		return v == nil
	case Slice:
		return v.a == nil && v.virt == nil
	case Iface:
		return v.t == nil
	case *ssa.Function:
		return v == nil
	case *Closure:
		return v == nil
	case *ssa.Builtin:
		return v == nil
	}
	return false
}

// describe renders a value for diagnostics and samples.
func describe(v Value) string {
	return describeDepth(v, 0)
}

func describeDepth(v Value, d int) string {
	if d > 4 {
		return "…"
	}
	switch v := v.(type) {
	case nil:
		return "nil"
	case *Term:
		return v.String()
	case StrV:
		if s, ok := strConcrete(v); ok {
			return fmt.Sprintf("%q", s)
		}
		parts := make([]string, len(v))
		for i, t := range v {
			parts[i] = t.String()
		}
		return "str[" + strings.Join(parts, " ") + "]"
	case *Value:
		if v == nil {
			return "nil"
		}
		return "&" + describeDepth(*v, d+1)
	case Struct:
		parts := make([]string, len(v))
		for i, f := range v {
			parts[i] = describeDepth(f, d+1)
		}
		return "{" + strings.Join(parts, ", ") + "}"
	case Array:
		parts := make([]string, len(v))
		for i, f := range v {
			parts[i] = describeDepth(f, d+1)
		}
		return "[" + strings.Join(parts, " ") + "]"
	case Slice:
		if v.a == nil {
			return "[]nil"
		}
		parts := make([]string, len(v.a))
		for i, f := range v.a {
			parts[i] = describeDepth(f, d+1)
		}
		return "[]{" + strings.Join(parts, " ") + "}"
	case Iface:
		if v.t == nil {
			return "nil"
		}
		return fmt.Sprintf("(%s)%s", v.t, describeDepth(v.v, d+1))
	case *ssa.Function:
		if v == nil {
			return "nilfunc"
		}
		return v.String()
	case *Closure:
		return "closure:" + v.fn.String()
	case *ChanV:
		if v == nil {
			return "nilchan"
		}
		return fmt.Sprintf("chan#%d(len=%d cap=%d closed=%v)", v.id, len(v.buf), v.cap, v.closed)
	case *MapV:
		if v == nil {
			return "nilmap"
		}
		return fmt.Sprintf("map(len=%d)", v.live)
	case Tuple:
		parts := make([]string, len(v))
		for i, f := range v {
			parts[i] = describeDepth(f, d+1)
		}
		return "(" + strings.Join(parts, ", ") + ")"
	}
	return fmt.Sprintf("%T", v)
}

func sortedKeys(m map[string]int) []string {
	ks := make([]string, 0, len(m))
	for k := range m {
		ks = append(ks, k)
	}
	sort.Strings(ks)
	return ks
}
