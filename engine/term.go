package main

// Term library: hash-consed bit-vector / boolean terms with constant folding
// and SMT-LIB2 printing.

import (
	"fmt"
	"strings"
)

type Op uint8

const (
	OpConst Op = iota // bit-vector constant (W>0) or bool constant (W==0)
	OpVar
	OpAdd
	OpSub
	OpMul
	OpAnd
	OpOr
	OpXor
	OpShl
	OpLshr
	OpAshr
	OpUdiv
	OpUrem
	OpSdiv
	OpSrem
	OpNot // bvnot
	OpNeg
	OpConcat
	OpExtract
	OpZext
	OpSext
	OpIte
	OpEq
	OpUlt
	OpUle
	OpSlt
	OpSle
	OpBAnd
	OpBOr
	OpBNot
)

var opNames = [...]string{
	OpConst: "const", OpVar: "var", OpAdd: "bvadd", OpSub: "bvsub", OpMul: "bvmul",
	OpAnd: "bvand", OpOr: "bvor", OpXor: "bvxor", OpShl: "bvshl", OpLshr: "bvlshr",
	OpAshr: "bvashr", OpUdiv: "bvudiv", OpUrem: "bvurem", OpSdiv: "bvsdiv", OpSrem: "bvsrem",
	OpNot: "bvnot", OpNeg: "bvneg", OpConcat: "concat", OpExtract: "extract", OpZext: "zero_extend",
	OpSext: "sign_extend", OpIte: "ite", OpEq: "=", OpUlt: "bvult", OpUle: "bvule",
	OpSlt: "bvslt", OpSle: "bvsle", OpBAnd: "and", OpBOr: "or", OpBNot: "not",
}

// Term is immutable. W is the bit width; W==0 means Bool.
type Term struct {
	Op     Op
	W      int
	Args   []*Term
	Val    uint64 // OpConst
	Hi, Lo int    // OpExtract; Hi also = extension amount for Zext/Sext
	Name   string // OpVar
	id     int
}

func (t *Term) IsConst() bool { return t.Op == OpConst }
func (t *Term) IsBool() bool  { return t.W == 0 }
func (t *Term) IsTrue() bool  { return t.Op == OpConst && t.W == 0 && t.Val == 1 }
func (t *Term) IsFalse() bool { return t.Op == OpConst && t.W == 0 && t.Val == 0 }

// Signed value of a constant.
func (t *Term) SVal() int64 {
	if t.W == 64 || t.W == 0 {
		return int64(t.Val)
	}
	if t.Val&(1<<uint(t.W-1)) != 0 {
		return int64(t.Val | ^mask(t.W))
	}
	return int64(t.Val)
}

func mask(w int) uint64 {
	if w >= 64 {
		return ^uint64(0)
	}
	return (uint64(1) << uint(w)) - 1
}

// TermCtx owns the hash-consing table. One per path execution.
type TermCtx struct {
	tab    map[string]*Term
	nextID int
	vars   []*Term
}

func NewTermCtx() *TermCtx {
	return &TermCtx{tab: make(map[string]*Term)}
}

func (c *TermCtx) intern(t *Term) *Term {
	var sb strings.Builder
	fmt.Fprintf(&sb, "%d/%d/%d/%d/%d/%s", t.Op, t.W, t.Val, t.Hi, t.Lo, t.Name)
	for _, a := range t.Args {
		fmt.Fprintf(&sb, ",%d", a.id)
	}
	k := sb.String()
	if x, ok := c.tab[k]; ok {
		return x
	}
	c.nextID++
	t.id = c.nextID
	c.tab[k] = t
	if t.Op == OpVar {
		c.vars = append(c.vars, t)
	}
	return t
}

func (c *TermCtx) Const(w int, v uint64) *Term {
	return c.intern(&Term{Op: OpConst, W: w, Val: v & mask(w)})
}
func (c *TermCtx) Bool(b bool) *Term {
	if b {
		return c.intern(&Term{Op: OpConst, W: 0, Val: 1})
	}
	return c.intern(&Term{Op: OpConst, W: 0, Val: 0})
}
func (c *TermCtx) Var(name string, w int) *Term {
	return c.intern(&Term{Op: OpVar, W: w, Name: name})
}

func sext64(v uint64, w int) int64 {
	if w >= 64 {
		return int64(v)
	}
	if v&(1<<uint(w-1)) != 0 {
		return int64(v | ^mask(w))
	}
	return int64(v)
}

// Bin builds a binary bit-vector operation with folding.
func (c *TermCtx) Bin(op Op, a, b *Term) *Term {
	if a.W != b.W {
		panic(fmt.Sprintf("term width mismatch %s: %d vs %d", opNames[op], a.W, b.W))
	}
	w := a.W
	switch op {
	case OpAdd, OpMul, OpAnd, OpOr, OpXor:
		// canonical argument order for commutative operators: constants last
		if a.IsConst() && !b.IsConst() || (!a.IsConst() && !b.IsConst() && a.id > b.id) {
			a, b = b, a
		}
	}
	if a.IsConst() && b.IsConst() {
		x, y := a.Val, b.Val
		var r uint64
		ok := true
		switch op {
		case OpAdd:
			r = x + y
		case OpSub:
			r = x - y
		case OpMul:
			r = x * y
		case OpAnd:
			r = x & y
		case OpOr:
			r = x | y
		case OpXor:
			r = x ^ y
		case OpShl:
			if y >= uint64(w) {
				r = 0
			} else {
				r = x << y
			}
		case OpLshr:
			if y >= uint64(w) {
				r = 0
			} else {
				r = x >> y
			}
		case OpAshr:
			sx := sext64(x, w)
			if y >= uint64(w) {
				if sx < 0 {
					r = ^uint64(0)
				} else {
					r = 0
				}
			} else {
				r = uint64(sx >> y)
			}
		case OpUdiv:
			if y == 0 {
				r = ^uint64(0)
			} else {
				r = x / y
			}
		case OpUrem:
			if y == 0 {
				r = x
			} else {
				r = x % y
			}
		case OpSdiv:
			if y == 0 {
				ok = false
			} else {
				r = uint64(sext64(x, w) / sext64(y, w))
			}
		case OpSrem:
			if y == 0 {
				ok = false
			} else {
				r = uint64(sext64(x, w) % sext64(y, w))
			}
		default:
			ok = false
		}
		if ok {
			return c.Const(w, r)
		}
	}
	// identities
	switch op {
	case OpAdd, OpOr, OpXor:
		if a.IsConst() && a.Val == 0 {
			return b
		}
		if b.IsConst() && b.Val == 0 {
			return a
		}
		if op == OpOr && a == b {
			return a
		}
		if op == OpXor && a == b {
			return c.Const(w, 0)
		}
	case OpSub:
		if b.IsConst() && b.Val == 0 {
			return a
		}
		if a == b {
			return c.Const(w, 0)
		}
	case OpAnd:
		if a.IsConst() && a.Val == 0 || b.IsConst() && b.Val == 0 {
			return c.Const(w, 0)
		}
		if a.IsConst() && a.Val == mask(w) {
			return b
		}
		if b.IsConst() && b.Val == mask(w) {
			return a
		}
		if a == b {
			return a
		}
	case OpMul:
		if a.IsConst() && a.Val == 1 {
			return b
		}
		if b.IsConst() && b.Val == 1 {
			return a
		}
		if a.IsConst() && a.Val == 0 || b.IsConst() && b.Val == 0 {
			return c.Const(w, 0)
		}
	case OpShl, OpLshr, OpAshr:
		if b.IsConst() && b.Val == 0 {
			return a
		}
		if a.IsConst() && a.Val == 0 {
			return a
		}
		if b.IsConst() && b.Val >= uint64(w) && op != OpAshr {
			return c.Const(w, 0)
		}
	}
	if op == OpOr || op == OpXor || op == OpAdd {
		if pa, ok := c.pieces(a); ok {
			if pb, ok := c.pieces(b); ok {
				if r := c.joinPieces(w, pa, pb); r != nil {
					return r
				}
			}
		}
	}
	// push binary ops through ite with constant leaves (keeps terms small)
	if a.Op == OpIte && b.IsConst() && a.Args[1].IsConst() && a.Args[2].IsConst() {
		return c.Ite(a.Args[0], c.Bin(op, a.Args[1], b), c.Bin(op, a.Args[2], b))
	}
	if b.Op == OpIte && a.IsConst() && b.Args[1].IsConst() && b.Args[2].IsConst() {
		return c.Ite(b.Args[0], c.Bin(op, a, b.Args[1]), c.Bin(op, a, b.Args[2]))
	}
	return c.intern(&Term{Op: op, W: w, Args: []*Term{a, b}})
}

func (c *TermCtx) Not(a *Term) *Term { // bvnot
	if a.IsConst() {
		return c.Const(a.W, ^a.Val)
	}
	if a.Op == OpNot {
		return a.Args[0]
	}
	return c.intern(&Term{Op: OpNot, W: a.W, Args: []*Term{a}})
}
func (c *TermCtx) Neg(a *Term) *Term {
	if a.IsConst() {
		return c.Const(a.W, -a.Val)
	}
	return c.intern(&Term{Op: OpNeg, W: a.W, Args: []*Term{a}})
}

func (c *TermCtx) Extract(a *Term, hi, lo int) *Term {
	w := hi - lo + 1
	if lo == 0 && w == a.W {
		return a
	}
	if a.IsConst() {
		return c.Const(w, a.Val>>uint(lo))
	}
	switch a.Op {
	case OpZext:
		inner := a.Args[0]
		if hi < inner.W {
			return c.Extract(inner, hi, lo)
		}
		if lo >= inner.W {
			return c.Const(w, 0)
		}
	case OpSext:
		inner := a.Args[0]
		if hi < inner.W {
			return c.Extract(inner, hi, lo)
		}
	case OpExtract:
		return c.Extract(a.Args[0], hi+a.Lo, lo+a.Lo)
	case OpConcat:
		lowW := a.Args[1].W
		if hi < lowW {
			return c.Extract(a.Args[1], hi, lo)
		}
		if lo >= lowW {
			return c.Extract(a.Args[0], hi-lowW, lo-lowW)
		}
	case OpIte:
		if a.Args[1].IsConst() && a.Args[2].IsConst() {
			return c.Ite(a.Args[0], c.Extract(a.Args[1], hi, lo), c.Extract(a.Args[2], hi, lo))
		}
	case OpAnd, OpOr, OpXor:
		// extract distributes over bitwise ops
		return c.Bin(a.Op, c.Extract(a.Args[0], hi, lo), c.Extract(a.Args[1], hi, lo))
	case OpNot:
		return c.Not(c.Extract(a.Args[0], hi, lo))
	case OpLshr:
		if k := a.Args[1]; k.IsConst() {
			sh := int(k.Val)
			X := a.Args[0]
			switch {
			case hi+sh < X.W:
				return c.Extract(X, hi+sh, lo+sh)
			case lo+sh >= X.W:
				return c.Const(w, 0)
			default:
				top := c.Extract(X, X.W-1, lo+sh)
				return c.Concat(c.Const(w-top.W, 0), top)
			}
		}
	case OpShl:
		if k := a.Args[1]; k.IsConst() {
			sh := int(k.Val)
			X := a.Args[0]
			switch {
			case lo >= sh:
				return c.Extract(X, hi-sh, lo-sh)
			case hi < sh:
				return c.Const(w, 0)
			default:
				low := c.Extract(X, hi-sh, 0)
				return c.Concat(low, c.Const(w-low.W, 0))
			}
		}
	case OpAdd, OpSub, OpMul:
		// low bits of modular arithmetic depend on low bits only
		if lo == 0 && (a.Args[0].Op == OpZext || a.Args[1].Op == OpZext || a.Args[0].IsConst() || a.Args[1].IsConst()) {
			x0, x1 := a.Args[0], a.Args[1]
			ok0 := x0.IsConst() || ((x0.Op == OpZext || x0.Op == OpSext) && x0.Args[0].W <= w)
			ok1 := x1.IsConst() || ((x1.Op == OpZext || x1.Op == OpSext) && x1.Args[0].W <= w)
			if ok0 && ok1 {
				return c.Bin(a.Op, c.Extract(x0, hi, 0), c.Extract(x1, hi, 0))
			}
		}
	}
	return c.intern(&Term{Op: OpExtract, W: w, Args: []*Term{a}, Hi: hi, Lo: lo})
}

func (c *TermCtx) Zext(a *Term, w int) *Term {
	if w == a.W {
		return a
	}
	if w < a.W {
		return c.Extract(a, w-1, 0)
	}
	if a.IsConst() {
		return c.Const(w, a.Val)
	}
	if a.Op == OpZext {
		return c.Zext(a.Args[0], w)
	}
	if a.Op == OpIte && a.Args[1].IsConst() && a.Args[2].IsConst() {
		return c.Ite(a.Args[0], c.Zext(a.Args[1], w), c.Zext(a.Args[2], w))
	}
	return c.intern(&Term{Op: OpZext, W: w, Args: []*Term{a}, Hi: w - a.W})
}

func (c *TermCtx) Sext(a *Term, w int) *Term {
	if w == a.W {
		return a
	}
	if w < a.W {
		return c.Extract(a, w-1, 0)
	}
	if a.IsConst() {
		return c.Const(w, uint64(sext64(a.Val, a.W)))
	}
	if a.Op == OpIte && a.Args[1].IsConst() && a.Args[2].IsConst() {
		return c.Ite(a.Args[0], c.Sext(a.Args[1], w), c.Sext(a.Args[2], w))
	}
	return c.intern(&Term{Op: OpSext, W: w, Args: []*Term{a}, Hi: w - a.W})
}

func (c *TermCtx) Concat(hi, lo *Term) *Term {
	if hi.IsConst() && lo.IsConst() {
		return c.Const(hi.W+lo.W, hi.Val<<uint(lo.W)|lo.Val)
	}
	if hi.IsConst() && hi.Val == 0 {
		return c.Zext(lo, hi.W+lo.W)
	}
	// adjacent extracts of one base merge
	if hi.Op == OpExtract && lo.Op == OpExtract && hi.Args[0] == lo.Args[0] && hi.Lo == lo.Hi+1 {
		return c.Extract(hi.Args[0], hi.Hi, lo.Lo)
	}
	if hi.Op == OpExtract && hi.Lo == lo.W && hi.Args[0].W >= lo.W && c.Extract(hi.Args[0], lo.W-1, 0) == lo {
		return c.Extract(hi.Args[0], hi.Hi, 0)
	}
	// concat(a, concat(b, c)) with a,b mergeable
	if lo.Op == OpConcat && hi.Op == OpExtract && lo.Args[0].Op == OpExtract && hi.Args[0] == lo.Args[0].Args[0] && hi.Lo == lo.Args[0].Hi+1 {
		return c.Concat(c.Extract(hi.Args[0], hi.Hi, lo.Args[0].Lo), lo.Args[1])
	}
	if lo.Op == OpZext {
		// concat(hi, zext(x)) = concat(concat(hi, 0..0), x)
		inner := lo.Args[0]
		return c.Concat(c.Concat(hi, c.Const(lo.W-inner.W, 0)), inner)
	}
	return c.intern(&Term{Op: OpConcat, W: hi.W + lo.W, Args: []*Term{hi, lo}})
}

func (c *TermCtx) Ite(cond, a, b *Term) *Term {
	if cond.IsTrue() {
		return a
	}
	if cond.IsFalse() {
		return b
	}
	if a == b {
		return a
	}
	if a.W == 0 {
		if a.IsTrue() && b.IsFalse() {
			return cond
		}
		if a.IsFalse() && b.IsTrue() {
			return c.BNot(cond)
		}
		if a.IsTrue() {
			return c.BOr(cond, b)
		}
		if a.IsFalse() {
			return c.BAnd(c.BNot(cond), b)
		}
		if b.IsTrue() {
			return c.BOr(c.BNot(cond), a)
		}
		if b.IsFalse() {
			return c.BAnd(cond, a)
		}
	}
	if cond.Op == OpBNot {
		return c.Ite(cond.Args[0], b, a)
	}
	return c.intern(&Term{Op: OpIte, W: a.W, Args: []*Term{cond, a, b}})
}

func (c *TermCtx) Eq(a, b *Term) *Term {
	if a.W != b.W {
		panic(fmt.Sprintf("eq width mismatch %d vs %d", a.W, b.W))
	}
	if a == b {
		return c.Bool(true)
	}
	if a.IsConst() && b.IsConst() {
		return c.Bool(a.Val == b.Val)
	}
	if a.W == 0 {
		if a.IsConst() {
			a, b = b, a
		}
		if b.IsTrue() {
			return a
		}
		if b.IsFalse() {
			return c.BNot(a)
		}
	}
	if a.IsConst() {
		a, b = b, a
	} else if !b.IsConst() && a.id > b.id {
		a, b = b, a
	}
	// eq(ite(c, k1, k2), k) with constants
	if b.IsConst() && a.Op == OpIte {
		t, e := a.Args[1], a.Args[2]
		if t.IsConst() || e.IsConst() {
			return c.Ite(a.Args[0], c.Eq(t, b), c.Eq(e, b))
		}
	}
	// eq(zext(x), k)
	if b.IsConst() && a.Op == OpZext {
		inner := a.Args[0]
		if b.Val>>uint(inner.W) != 0 {
			return c.Bool(false)
		}
		return c.Eq(inner, c.Const(inner.W, b.Val))
	}
	return c.intern(&Term{Op: OpEq, W: 0, Args: []*Term{a, b}})
}

func (c *TermCtx) Cmp(op Op, a, b *Term) *Term {
	if a.W != b.W {
		panic(fmt.Sprintf("cmp width mismatch %d vs %d", a.W, b.W))
	}
	if a.IsConst() && b.IsConst() {
		switch op {
		case OpUlt:
			return c.Bool(a.Val < b.Val)
		case OpUle:
			return c.Bool(a.Val <= b.Val)
		case OpSlt:
			return c.Bool(sext64(a.Val, a.W) < sext64(b.Val, b.W))
		case OpSle:
			return c.Bool(sext64(a.Val, a.W) <= sext64(b.Val, b.W))
		}
	}
	if a == b {
		return c.Bool(op == OpUle || op == OpSle)
	}
	if op == OpUlt && b.IsConst() && b.Val == 0 {
		return c.Bool(false)
	}
	if op == OpUle && a.IsConst() && a.Val == 0 {
		return c.Bool(true)
	}
	if (a.Op == OpIte && b.IsConst() && a.Args[1].IsConst() && a.Args[2].IsConst()) {
		return c.Ite(a.Args[0], c.Cmp(op, a.Args[1], b), c.Cmp(op, a.Args[2], b))
	}
	if (b.Op == OpIte && a.IsConst() && b.Args[1].IsConst() && b.Args[2].IsConst()) {
		return c.Ite(b.Args[0], c.Cmp(op, a, b.Args[1]), c.Cmp(op, a, b.Args[2]))
	}
	return c.intern(&Term{Op: op, W: 0, Args: []*Term{a, b}})
}

func (c *TermCtx) BNot(a *Term) *Term {
	if a.IsConst() {
		return c.Bool(a.Val == 0)
	}
	if a.Op == OpBNot {
		return a.Args[0]
	}
	return c.intern(&Term{Op: OpBNot, W: 0, Args: []*Term{a}})
}

func (c *TermCtx) BAnd(a, b *Term) *Term {
	if a.IsFalse() || b.IsFalse() {
		return c.Bool(false)
	}
	if a.IsTrue() {
		return b
	}
	if b.IsTrue() {
		return a
	}
	if a == b {
		return a
	}
	return c.intern(&Term{Op: OpBAnd, W: 0, Args: []*Term{a, b}})
}

func (c *TermCtx) BOr(a, b *Term) *Term {
	if a.IsTrue() || b.IsTrue() {
		return c.Bool(true)
	}
	if a.IsFalse() {
		return b
	}
	if b.IsFalse() {
		return a
	}
	if a == b {
		return a
	}
	return c.intern(&Term{Op: OpBOr, W: 0, Args: []*Term{a, b}})
}

// BoolToBV / BVToBool helpers are not needed: Go bools stay SMT Bools.

func sortOf(w int) string {
	if w == 0 {
		return "Bool"
	}
	return fmt.Sprintf("(_ BitVec %d)", w)
}

func constStr(t *Term) string {
	if t.W == 0 {
		if t.Val == 1 {
			return "true"
		}
		return "false"
	}
	if t.W%4 == 0 {
		return fmt.Sprintf("#x%0*x", t.W/4, t.Val)
	}
	return fmt.Sprintf("(_ bv%d %d)", t.Val, t.W)
}

// String renders a (small) term for diagnostics.
func (t *Term) String() string {
	return t.str(0)
}

func (t *Term) str(depth int) string {
	switch t.Op {
	case OpConst:
		return constStr(t)
	case OpVar:
		return t.Name
	}
	if depth > 6 {
		return "…"
	}
	var sb strings.Builder
	sb.WriteByte('(')
	switch t.Op {
	case OpExtract:
		fmt.Fprintf(&sb, "(_ extract %d %d)", t.Hi, t.Lo)
	case OpZext:
		fmt.Fprintf(&sb, "(_ zero_extend %d)", t.Hi)
	case OpSext:
		fmt.Fprintf(&sb, "(_ sign_extend %d)", t.Hi)
	default:
		sb.WriteString(opNames[t.Op])
	}
	for _, a := range t.Args {
		sb.WriteByte(' ')
		sb.WriteString(a.str(depth + 1))
	}
	sb.WriteByte(')')
	return sb.String()
}


// piece: bits [off, off+t.W) of a word hold t, everything else is zero.
type piece struct {
	off int
	t   *Term
}

// pieces decomposes a term into zero-padded pieces (only for the shapes that
// byte-wise (de)serialisation produces).
func (c *TermCtx) pieces(t *Term) ([]piece, bool) {
	switch t.Op {
	case OpConst:
		if t.Val == 0 {
			return nil, true
		}
		return nil, false
	case OpZext:
		in := t.Args[0]
		if ps, ok := c.pieces(in); ok {
			return ps, true
		}
		return []piece{{0, in}}, true
	case OpShl:
		k := t.Args[1]
		if !k.IsConst() {
			return nil, false
		}
		ps, ok := c.pieces(t.Args[0])
		if !ok {
			return nil, false
		}
		var out []piece
		for _, p := range ps {
			o := p.off + int(k.Val)
			if o >= t.W {
				continue
			}
			pt := p.t
			if o+pt.W > t.W {
				pt = c.Extract(pt, t.W-o-1, 0)
			}
			out = append(out, piece{o, pt})
		}
		return out, true
	case OpConcat:
		lo := t.Args[1]
		hi := t.Args[0]
		pl, ok := c.pieces(lo)
		if !ok {
			pl = []piece{{0, lo}}
		}
		ph, ok := c.pieces(hi)
		if !ok {
			ph = []piece{{0, hi}}
		}
		out := append([]piece{}, pl...)
		for _, p := range ph {
			out = append(out, piece{p.off + lo.W, p.t})
		}
		return out, true
	case OpOr:
		pa, ok := c.pieces(t.Args[0])
		if !ok {
			return nil, false
		}
		pb, ok := c.pieces(t.Args[1])
		if !ok {
			return nil, false
		}
		all := append(append([]piece{}, pa...), pb...)
		if !disjoint(all) {
			return nil, false
		}
		return all, true
	}
	return nil, false
}

func disjoint(ps []piece) bool {
	for i := range ps {
		for j := i + 1; j < len(ps); j++ {
			a, b := ps[i], ps[j]
			if a.off < b.off+b.t.W && b.off < a.off+a.t.W {
				return false
			}
		}
	}
	return true
}

func (c *TermCtx) joinPieces(w int, pa, pb []piece) *Term {
	if len(pa) == 0 || len(pb) == 0 {
		return nil
	}
	all := append(append([]piece{}, pa...), pb...)
	if !disjoint(all) {
		return nil
	}
	// sort by offset descending (insertion sort; tiny)
	for i := 1; i < len(all); i++ {
		for j := i; j > 0 && all[j].off > all[j-1].off; j-- {
			all[j], all[j-1] = all[j-1], all[j]
		}
	}
	var r *Term
	pos := w // next bit position to fill (exclusive)
	for _, p := range all {
		top := p.off + p.t.W
		if top > pos {
			return nil
		}
		if top < pos {
			z := c.Const(pos-top, 0)
			if r == nil {
				r = z
			} else {
				r = c.Concat(r, z)
			}
		}
		if r == nil {
			r = p.t
		} else {
			r = c.Concat(r, p.t)
		}
		pos = p.off
	}
	if pos > 0 {
		r = c.Concat(r, c.Const(pos, 0))
	}
	if r.W != w {
		return nil
	}
	return r
}

// Eval computes the value of t under a total assignment of its variables
// (missing variables count as 0). Used to reuse solver models as witnesses.
func Eval(t *Term, m map[string]uint64, memo map[*Term]uint64) uint64 {
	if v, ok := memo[t]; ok {
		return v
	}
	var r uint64
	a := func(i int) uint64 { return Eval(t.Args[i], m, memo) }
	b2u := func(b bool) uint64 {
		if b {
			return 1
		}
		return 0
	}
	switch t.Op {
	case OpConst:
		r = t.Val
	case OpVar:
		r = m[t.Name] & mask(t.W)
		if t.W == 0 {
			r = m[t.Name] & 1
		}
	case OpAdd:
		r = a(0) + a(1)
	case OpSub:
		r = a(0) - a(1)
	case OpMul:
		r = a(0) * a(1)
	case OpAnd:
		r = a(0) & a(1)
	case OpOr:
		r = a(0) | a(1)
	case OpXor:
		r = a(0) ^ a(1)
	case OpShl:
		if y := a(1); y >= uint64(t.W) {
			r = 0
		} else {
			r = a(0) << y
		}
	case OpLshr:
		if y := a(1); y >= uint64(t.W) {
			r = 0
		} else {
			r = a(0) >> y
		}
	case OpAshr:
		sx := sext64(a(0), t.W)
		if y := a(1); y >= uint64(t.W) {
			if sx < 0 {
				r = ^uint64(0)
			}
		} else {
			r = uint64(sx >> y)
		}
	case OpUdiv:
		if y := a(1); y == 0 {
			r = ^uint64(0)
		} else {
			r = a(0) / y
		}
	case OpUrem:
		if y := a(1); y == 0 {
			r = a(0)
		} else {
			r = a(0) % y
		}
	case OpSdiv:
		x, y := sext64(a(0), t.W), sext64(a(1), t.W)
		if y == 0 {
			if x < 0 {
				r = 1
			} else {
				r = ^uint64(0)
			}
		} else {
			r = uint64(x / y)
		}
	case OpSrem:
		x, y := sext64(a(0), t.W), sext64(a(1), t.W)
		if y == 0 {
			r = uint64(x)
		} else {
			r = uint64(x % y)
		}
	case OpNot:
		r = ^a(0)
	case OpNeg:
		r = -a(0)
	case OpConcat:
		r = a(0)<<uint(t.Args[1].W) | a(1)
	case OpExtract:
		r = a(0) >> uint(t.Lo)
	case OpZext:
		r = a(0)
	case OpSext:
		r = uint64(sext64(a(0), t.Args[0].W))
	case OpIte:
		if a(0) != 0 {
			r = a(1)
		} else {
			r = a(2)
		}
	case OpEq:
		r = b2u(a(0) == a(1))
	case OpUlt:
		r = b2u(a(0) < a(1))
	case OpUle:
		r = b2u(a(0) <= a(1))
	case OpSlt:
		w := t.Args[0].W
		r = b2u(sext64(a(0), w) < sext64(a(1), w))
	case OpSle:
		w := t.Args[0].W
		r = b2u(sext64(a(0), w) <= sext64(a(1), w))
	case OpBAnd:
		r = b2u(a(0) != 0 && a(1) != 0)
	case OpBOr:
		r = b2u(a(0) != 0 || a(1) != 0)
	case OpBNot:
		r = b2u(a(0) == 0)
	}
	if t.W > 0 {
		r &= mask(t.W)
	}
	memo[t] = r
	return r
}
