package main

// Translator validation: run harnesses concretely in the engine and natively
// on the same pseudo-random value streams and compare outcomes.

import (
	"encoding/json"
	"flag"
	"fmt"
	"math/rand"
	"os"
	"os/exec"
	"path/filepath"
	"regexp"
	"sort"
	"strings"
)

var selftestHarnesses = []string{
	"verifH_C08_writeTo", "verifH_C08_writeBuffersTo", "verifH_C08_requests",
	"verifH_C09_strings", "verifH_C09_publish", "verifH_C09_subscribe", "verifH_C09_connect",
	"verifH_C15_roundtrip", "verifH_C15_decodespec", "verifH_C15_damagesum", "verifH_C15_truncation",
	"verifH_C17_ring", "verifH_C17_limits", "verifH_C17_slots",
	"verifH_C01_accept", "verifH_C01_ack", "verifH_C01_resend", "verifH_C05_order", "verifH_C03_cycle",
	"verifH_C02_adopt", "verifH_C16_adopt",
	"verifH_C13_header", "verifH_C13_packet", "verifH_C06_stream", "verifH_C04_steps", "verifH_C10_offline",
	"verifH_C18_connect", "verifH_C11_correlation", "verifH_C14_classifiers",
}

var selectNondet = map[string]bool{"verifH_C08_requests": true, "verifH_C09_subscribe": true, "verifH_C14_methods": true}

func cmdSelftest(args []string) int {
	fs := flag.NewFlagSet("selftest", flag.ExitOnError)
	n := fs.Int("n", 20, "vectors per harness")
	seed := fs.Int64("seed", 1, "")
	only := fs.String("only", "", "")
	fs.Parse(args)
	cfg := DefaultConfig()
	P, err := LoadProgram(cfg)
	if err != nil {
		fmt.Println("INCONCLUSIVE", err)
		return 2
	}
	rng := rand.New(rand.NewSource(*seed))
	dir := filepath.Join(verifDir, "out", "selftest")
	os.MkdirAll(dir, 0o755)
	vf, _ := os.Create(filepath.Join(dir, "vectors.jsonl"))
	var want []string
	var harnessOf []string
	solver, err := NewSolver(cfg.Solver)
	if err != nil {
		fmt.Println("INCONCLUSIVE", err)
		return 2
	}
	defer solver.Close()
	for _, h := range selftestHarnesses {
		if *only != "" && !strings.Contains(h, *only) {
			continue
		}
		for i := 0; i < *n; i++ {
			vals := make([]uint64, 400)
			for k := range vals {
				switch rng.Intn(4) {
				case 0:
					vals[k] = uint64(rng.Intn(4))
				case 1:
					vals[k] = uint64(rng.Intn(256))
				default:
					vals[k] = rng.Uint64()
				}
			}
			e, err := NewEngine(cfg, P, h)
			if err != nil {
				fmt.Println("INCONCLUSIVE", err)
				return 2
			}
			e.loose = vals
			e.params = map[string]int{}
			res := e.runPath(solver, nil)
			out := ""
			switch res.End.kind {
			case "done":
				out = "pass"
			case "infeasible":
				out = "assume-failed"
			case "violation":
				out = "violation: " + res.End.msg
				if len(res.Violations) > 0 && res.Violations[0].Kind != "assert" {
					out = res.Violations[0].Kind
				}
			default:
				out = res.End.kind + ": " + res.End.msg
			}
			var tags []string
			for t, c := range res.Reach {
				for j := 0; j < c; j++ {
					tags = append(tags, t)
				}
			}
			sort.Strings(tags)
			harnessOf = append(harnessOf, h)
			want = append(want, fmt.Sprintf("%s | reach=%s", out, strings.Join(tags, ",")))
			nd := make([]NondetVal, len(vals))
			for k, v := range vals {
				nd[k] = NondetVal{Tag: "", Kind: "", Val: v}
			}
			line, _ := json.Marshal(map[string]interface{}{"harness": h, "params": map[string]int{}, "nondets": nd, "loose": true})
			vf.Write(append(line, '\n'))
		}
	}
	vf.Close()
	ov, err := overlayJSON(P, dir)
	if err != nil {
		fmt.Println("INCONCLUSIVE", err)
		return 2
	}
	cmd := exec.Command("timeout", "1200", "go", "test", "-tags", "verif", "-vet=off", "-count=1", "-overlay", ov, "-run", "^TestVerifSelftest$", "-v", ".")
	cmd.Dir = cfg.RepoDir
	cmd.Env = append(os.Environ(), "GOFLAGS=-mod=mod", "GOPROXY=off", "GOSUMDB=off", "GOTOOLCHAIN=local", "VERIF_VECTORS="+filepath.Join(dir, "vectors.jsonl"))
	outb, _ := cmd.CombinedOutput()
	os.WriteFile(filepath.Join(dir, "native.log"), outb, 0o644)
	re := regexp.MustCompile(`(?m)^SELFTEST (\d+) (.*)$`)
	got := map[int]string{}
	for _, m := range re.FindAllStringSubmatch(string(outb), -1) {
		var i int
		fmt.Sscan(m[1], &i)
		got[i] = m[2]
	}
	mism := 0
	skipped := 0
	for i, w := range want {
		g, ok := got[i]
		if !ok {
			mism++
			if mism <= 10 {
				fmt.Printf("MISSING native result for vector %d (engine: %s)\n", i, w)
			}
			continue
		}
		if strings.HasPrefix(w, "unsupported") || strings.HasPrefix(w, "unwind") || strings.HasPrefix(w, "deadlock") || strings.HasPrefix(w, "wedge") {
			skipped++
			continue
		}
		// panic texts differ in wording between the engine and the runtime
		if strings.HasPrefix(w, "panic") && strings.HasPrefix(g, "panic") {
			continue
		}
		if selectNondet[harnessOf[i]] {
			// select over several ready cases is resolved at random natively: compare the verdict only
			w = strings.SplitN(w, " | ", 2)[0]
			g = strings.SplitN(g, " | ", 2)[0]
		}
		if w != g {
			mism++
			if mism <= 10 {
				fmt.Printf("MISMATCH vector %d\n  engine: %s\n  native: %s\n", i, w, g)
			}
		}
	}
	fmt.Printf("selftest: %d vectors, %d compared, %d skipped (engine-only outcomes), %d mismatches\n", len(want), len(want)-skipped, skipped, mism)
	if mism > 0 {
		return 1
	}
	return 0
}
