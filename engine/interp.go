package main

// SSA instruction interpreter (symbolic). Structure follows
// golang.org/x/tools/go/ssa/interp, values are terms.

import (
	"fmt"
	"os"
	"go/constant"
	"go/token"
	"go/types"
	"runtime/debug"
	"strings"

	"golang.org/x/tools/go/ssa"
)

var traceFn = os.Getenv("GOSX_TRACE")

func stackTrace() string { return string(debug.Stack()) }

type deferred struct {
	fn    Value
	args  []Value
	instr *ssa.Defer
	tail  *deferred
}

type frame struct {
	x         *Exec
	caller    *frame
	fn        *ssa.Function
	block     *ssa.BasicBlock
	prevBlock *ssa.BasicBlock
	env       map[ssa.Value]Value
	locals    []Value
	defers    *deferred
	result    Value
	panicking bool
	panic     interface{}
	visits    map[int]int
}

func (fr *frame) get(key ssa.Value) Value {
	switch key := key.(type) {
	case nil:
		return nil
	case *ssa.Function, *ssa.Builtin:
		return key
	case *ssa.Const:
		return fr.x.constValue(key)
	case *ssa.Global:
		return fr.x.globalAddr(key)
	}
	if r, ok := fr.env[key]; ok {
		return r
	}
	panic(fmt.Sprintf("get: no value for %T: %v in %s", key, key.Name(), fr.fn))
}

func (x *Exec) globalAddr(g *ssa.Global) *Value {
	if p, ok := x.globals[g]; ok {
		return p
	}
	p := new(Value)
	*p = x.zero(deref(g.Type()))
	x.globals[g] = p
	x.lazyGlobalInit(g, p)
	if g.Pkg != nil && !strings.HasPrefix(g.Name(), "init$") {
		x.ensureInit(g.Pkg)
	}
	return p
}

func deref(t types.Type) types.Type {
	if p, ok := t.Underlying().(*types.Pointer); ok {
		return p.Elem()
	}
	panic("deref of non-pointer " + t.String())
}

func (x *Exec) constValue(c *ssa.Const) Value {
	t := c.Type()
	if c.Value == nil {
		if _, ok := t.(*types.TypeParam); ok {
			x.unsupported("const of type param")
		}
		return x.zero(t)
	}
	if b, ok := t.Underlying().(*types.Basic); ok {
		switch {
		case b.Info()&types.IsBoolean != 0:
			return x.tc.Bool(constant.BoolVal(c.Value))
		case b.Info()&types.IsString != 0:
			if c.Value.Kind() == constant.String {
				return x.strConst(constant.StringVal(c.Value))
			}
			// rune/int constant converted to string
			return x.strConst(string(rune(c.Int64())))
		case b.Info()&types.IsInteger != 0:
			w := typeWidth(t)
			if isSigned(t) {
				return x.tc.Const(w, uint64(c.Int64()))
			}
			return x.tc.Const(w, c.Uint64())
		case b.Info()&types.IsFloat != 0:
			f, _ := constant.Float64Val(c.Value)
			return &Opaque{kind: "float", data: f}
		}
	}
	panic(fmt.Sprintf("constValue: unsupported %s of type %s", c, t))
}

// runFrame executes fr until return.
func (fr *frame) run() {
	defer func() {
		if fr.block == nil {
			return // normal return
		}
		r := recover()
		switch r.(type) {
		case pathEnd, abortPath:
			panic(r)
		case nil:
			return
		case targetPanic:
		default:
			panic(r) // engine bug; do not run defers
		}
		fr.panicking = true
		fr.panic = r
		fr.runDefers()
		// recovered: continue in the Recover block, or return
		if fr.fn.Recover != nil {
			fr.block = fr.fn.Recover
			fr.prevBlock = nil
			fr.runBlocks()
		} else {
			fr.block = nil
		}
	}()
	fr.runBlocks()
}

func (fr *frame) runBlocks() {
	x := fr.x
	for fr.block != nil {
		b := fr.block
		// unwinding bound
		fr.visits[b.Index]++
		if n := fr.visits[b.Index]; n > x.res.MaxLoop {
			x.res.MaxLoop = n
		}
		if fr.visits[b.Index] > x.unwind {
			switch x.onUnwind {
			case 1:
				x.res.Reach["(cut-at-unwinding-bound)"]++
				x.end("infeasible", "cut at the unwinding bound (declared benign by the harness)")
			case 2:
				x.violation("wedge", x.wedgeMsg+fmt.Sprintf(" (loop in %s did not terminate within %d iterations)", fr.fn, x.unwind), nil)
			}
			if schedTrace {
				fmt.Println("UNWIND-HERE")
			}
			x.end("unwind", fmt.Sprintf("unwinding bound %d exceeded in %s block %d (%s); goroutines: %s", x.unwind, fr.fn, b.Index, b.Comment, x.goroutineStates()))
		}
		// phis
		i := 0
		if fr.prevBlock != nil {
			var idx int
			for k, p := range b.Preds {
				if p == fr.prevBlock {
					idx = k
					break
				}
			}
			var vals []Value
			for ; i < len(b.Instrs); i++ {
				phi, ok := b.Instrs[i].(*ssa.Phi)
				if !ok {
					break
				}
				vals = append(vals, fr.get(phi.Edges[idx]))
			}
			for k, v := range vals {
				fr.env[b.Instrs[k].(*ssa.Phi)] = v
			}
		}
	instrs:
		for ; i < len(b.Instrs); i++ {
			x.res.Instrs++
			if x.res.Instrs > x.instrBudget {
				x.end("unwind", fmt.Sprintf("instruction budget %d exceeded in %s", x.instrBudget, fr.fn))
			}
			if traceFn != "" && strings.Contains(fr.fn.String(), traceFn) {
				fmt.Printf("TRACE %s: %s", fr.fn.Name(), b.Instrs[i])
				if v, ok := b.Instrs[i].(ssa.Value); ok {
					defer func(v ssa.Value) {}(v)
				}
				fmt.Println()
			}
			switch fr.visit(b.Instrs[i]) {
			case kReturn:
				return
			case kJump:
				break instrs
			}
		}
	}
}

type continuation int

const (
	kNext continuation = iota
	kReturn
	kJump
)

func (fr *frame) runDefers() {
	for d := fr.defers; d != nil; d = d.tail {
		fr.runDefer(d)
	}
	fr.defers = nil
	if fr.panicking {
		panic(fr.panic)
	}
}

func (fr *frame) runDefer(d *deferred) {
	var ok bool
	defer func() {
		if !ok {
			r := recover()
			switch r.(type) {
			case pathEnd, abortPath:
				panic(r)
			case targetPanic:
				fr.panicking = true
				fr.panic = r
			default:
				panic(r)
			}
		}
	}()
	fr.x.call(fr, d.fn, d.args)
	ok = true
}

func (x *Exec) lookupMethod(typ types.Type, meth *types.Func) *ssa.Function {
	return x.eng.prog.LookupMethod(typ, meth.Pkg(), meth.Name())
}

func (fr *frame) prepareCall(call *ssa.CallCommon) (fn Value, args []Value) {
	v := fr.get(call.Value)
	if call.Method == nil {
		fn = v
	} else {
		recv := v.(Iface)
		if recv.t == nil {
			fr.x.goPanic("runtime error: invalid memory address or nil pointer dereference (method " + call.Method.Name() + " invoked on nil interface)")
		}
		f := fr.x.lookupMethod(recv.t, call.Method)
		if f == nil {
			panic(fmt.Sprintf("method set for dynamic type %v does not contain %s", recv.t, call.Method))
		}
		fn = f
		args = append(args, recv.v)
	}
	for _, arg := range call.Args {
		args = append(args, copyVal(fr.get(arg)))
	}
	return
}

func (x *Exec) call(caller *frame, fn Value, args []Value) Value {
	switch fn := fn.(type) {
	case *ssa.Function:
		if fn == nil {
			x.goPanic("runtime error: invalid memory address or nil pointer dereference (call of nil func)")
		}
		return x.callSSA(caller, fn, args, nil)
	case *Closure:
		if fn == nil {
			x.goPanic("runtime error: invalid memory address or nil pointer dereference (call of nil func)")
		}
		return x.callSSA(caller, fn.fn, args, fn.env)
	case *ssa.Builtin:
		return x.callBuiltin(caller, fn, args)
	}
	panic(fmt.Sprintf("cannot call %T", fn))
}

func (x *Exec) callSSA(caller *frame, fn *ssa.Function, args []Value, env []Value) Value {
	name := fn.String()
	if fn.Parent() == nil {
		if fn.Name() == "init" && fn.Synthetic == "package initializer" && caller != nil {
			return nil // foreign package initialisers are run lazily (ensureInit) or not at all
		}
		if fn.Pkg != nil && strings.HasPrefix(fn.Name(), "verif") && fn.Signature.Recv() == nil {
			if in := verifAPI[fn.Name()]; in != nil {
				fr := &frame{x: x, caller: caller, fn: fn}
				return in(fr, args)
			}
		}
		if len(x.eng.redirects) > 0 && (fn.Pkg == nil || !execPkgs[fn.Pkg.Pkg.Path()] || true) {
			if r := x.eng.redirects[redirectKey(fn)]; r != nil && r != fn {
				x.res.StubsHit[name+"=>"+r.Name()]++
				return x.callSSA(caller, r, args, nil)
			}
		}
		if in := intrinsics[name]; in != nil {
			x.res.StubsHit[name]++
			fr := &frame{x: x, caller: caller, fn: fn}
			return in(fr, args)
		}
		if strings.HasPrefix(name, "(*sync/atomic.Pointer[") || strings.HasPrefix(name, "(*sync/atomic.") || strings.HasPrefix(name, "sync/atomic.") {
			if r, ok := x.atomicIntrinsic(fn, args); ok {
				x.res.StubsHit[name]++
				return r
			}
		}
	}
	if fn.Blocks == nil {
		x.unsupported("no code for function: %s", name)
	}
	if !x.eng.allowed(fn) {
		x.unsupported("function outside the encoded set (needs an intrinsic or whitelist): %s", name)
	}
	if fn.Pkg != nil {
		x.ensureInit(fn.Pkg)
	}
	x.res.FuncsHit[name]++
	if len(x.log) < 4000 {
		x.log = append(x.log, name)
	} else {
		copy(x.log, x.log[2000:])
		x.log = append(x.log[:2000], name)
	}
	fr := &frame{x: x, caller: caller, fn: fn, env: make(map[ssa.Value]Value), block: fn.Blocks[0],
		locals: make([]Value, len(fn.Locals)), visits: make(map[int]int)}
	for i, l := range fn.Locals {
		fr.locals[i] = x.zero(deref(l.Type()))
		fr.env[l] = &fr.locals[i]
	}
	for i, p := range fn.Params {
		fr.env[p] = args[i]
	}
	for i, fv := range fn.FreeVars {
		fr.env[fv] = env[i]
	}
	fr.run()
	// free env early
	fr.env = nil
	return fr.result
}

func (fr *frame) visit(instr ssa.Instruction) continuation {
	x := fr.x
	switch instr := instr.(type) {
	case *ssa.DebugRef:
	case *ssa.UnOp:
		fr.env[instr] = x.unop(fr, instr, fr.get(instr.X))
	case *ssa.BinOp:
		fr.env[instr] = x.binop(instr.Op, instr.X.Type(), fr.get(instr.X), fr.get(instr.Y))
	case *ssa.Call:
		fn, args := fr.prepareCall(&instr.Call)
		fr.env[instr] = x.call(fr, fn, args)
	case *ssa.ChangeInterface:
		fr.env[instr] = fr.get(instr.X)
	case *ssa.ChangeType:
		fr.env[instr] = fr.get(instr.X)
	case *ssa.Convert:
		fr.env[instr] = x.conv(instr.Type(), instr.X.Type(), fr.get(instr.X))
	case *ssa.SliceToArrayPointer:
		x.unsupported("SliceToArrayPointer")
	case *ssa.MakeInterface:
		fr.env[instr] = Iface{t: instr.X.Type(), v: copyVal(fr.get(instr.X))}
	case *ssa.Extract:
		fr.env[instr] = fr.get(instr.Tuple).(Tuple)[instr.Index]
	case *ssa.Slice:
		fr.env[instr] = x.sliceOp(instr, fr.get(instr.X), fr.get(instr.Low), fr.get(instr.High), fr.get(instr.Max))
	case *ssa.Return:
		switch len(instr.Results) {
		case 0:
		case 1:
			fr.result = copyVal(fr.get(instr.Results[0]))
		default:
			var res Tuple
			for _, r := range instr.Results {
				res = append(res, copyVal(fr.get(r)))
			}
			fr.result = res
		}
		fr.block = nil
		return kReturn
	case *ssa.RunDefers:
		fr.runDefers()
	case *ssa.Panic:
		panic(targetPanic{fr.get(instr.X)})
	case *ssa.Send:
		x.chanSend(fr.get(instr.Chan).(*ChanV), copyVal(fr.get(instr.X)))
	case *ssa.Store:
		x.store(fr.get(instr.Addr), fr.get(instr.Val))
	case *ssa.If:
		succ := 1
		if x.branch(fr.get(instr.Cond).(*Term)) {
			succ = 0
		}
		fr.prevBlock, fr.block = fr.block, fr.block.Succs[succ]
		return kJump
	case *ssa.Jump:
		fr.prevBlock, fr.block = fr.block, fr.block.Succs[0]
		return kJump
	case *ssa.Defer:
		fn, args := fr.prepareCall(&instr.Call)
		if instr.DeferStack != nil {
			x.unsupported("defer with explicit DeferStack")
		}
		fr.defers = &deferred{fn: fn, args: args, instr: instr, tail: fr.defers}
	case *ssa.Go:
		fn, args := fr.prepareCall(&instr.Call)
		name := "go@" + fr.fn.Name()
		x.newGoroutine(name, func() { x.call(nil, fn, args) })
		x.maybePreempt()
	case *ssa.MakeChan:
		n := x.concreteInt(fr.get(instr.Size))
		if n < 0 {
			x.goPanic("makechan: size out of range")
		}
		x.nextChan++
		fr.env[instr] = &ChanV{id: x.nextChan, cap: n, et: instr.Type().Underlying().(*types.Chan).Elem()}
	case *ssa.Alloc:
		var addr *Value
		if instr.Heap {
			addr = new(Value)
			fr.env[instr] = addr
		} else {
			addr = fr.env[instr].(*Value)
		}
		*addr = x.zero(deref(instr.Type()))
	case *ssa.MakeSlice:
		c := x.concreteInt(fr.get(instr.Cap))
		l := x.concreteInt(fr.get(instr.Len))
		if l < 0 || c < l {
			x.goPanic("runtime error: makeslice: len out of range")
		}
		if c > x.eng.cfg.MaxAlloc {
			x.unsupported("make([]T, %d) exceeds the engine's allocation bound %d", c, x.eng.cfg.MaxAlloc)
		}
		elt := instr.Type().Underlying().(*types.Slice).Elem()
		a := make([]Value, c)
		for i := range a {
			a[i] = x.zero(elt)
		}
		fr.env[instr] = Slice{a: a[:l]}
	case *ssa.MakeMap:
		mt := instr.Type().Underlying().(*types.Map)
		fr.env[instr] = &MapV{kt: mt.Key(), vt: mt.Elem()}
	case *ssa.Range:
		fr.env[instr] = x.rangeIter(fr.get(instr.X), instr.X.Type())
	case *ssa.Next:
		fr.env[instr] = x.iterNext(fr.get(instr.Iter), instr)
	case *ssa.FieldAddr:
		p := fr.get(instr.X).(*Value)
		if p == nil {
			x.goPanic("runtime error: invalid memory address or nil pointer dereference")
		}
		fr.env[instr] = &(*p).(Struct)[instr.Field]
	case *ssa.Field:
		fr.env[instr] = fr.get(instr.X).(Struct)[instr.Field]
	case *ssa.IndexAddr:
		fr.env[instr] = x.indexAddr(fr.get(instr.X), x.to64(fr.get(instr.Index).(*Term), isSigned(instr.Index.Type())), instr.X.Type())
	case *ssa.Index:
		fr.env[instr] = x.index(fr.get(instr.X), x.to64(fr.get(instr.Index).(*Term), isSigned(instr.Index.Type())))
	case *ssa.Lookup:
		fr.env[instr] = x.lookup(instr, fr.get(instr.X), fr.get(instr.Index))
	case *ssa.MapUpdate:
		x.mapUpdate(fr.get(instr.Map).(*MapV), fr.get(instr.Key), copyVal(fr.get(instr.Value)))
	case *ssa.TypeAssert:
		fr.env[instr] = x.typeAssert(instr, fr.get(instr.X).(Iface))
	case *ssa.MakeClosure:
		var bindings []Value
		for _, b := range instr.Bindings {
			bindings = append(bindings, fr.get(b))
		}
		fr.env[instr] = &Closure{instr.Fn.(*ssa.Function), bindings}
	case *ssa.Phi:
		panic("unreachable phi")
	case *ssa.Select:
		fr.env[instr] = x.selectOp(fr, instr)
	default:
		x.unsupported("unexpected instruction: %T", instr)
	}
	return kNext
}

// ---------- memory ----------

func (x *Exec) load(addr Value) Value {
	switch p := addr.(type) {
	case *Value:
		if p == nil {
			x.goPanic("runtime error: invalid memory address or nil pointer dereference")
		}
		return copyVal(*p)
	case *SymPtr:
		// ite chain over the cells
		var r Value
		for i := len(p.arr) - 1; i >= 0; i-- {
			c := p.arr[i]
			if r == nil {
				r = copyVal(c)
			} else {
				r = x.iteValue(x.tc.Eq(p.idx, x.tc.Const(64, uint64(i))), c, r)
			}
		}
		return r
	}
	panic(fmt.Sprintf("load from %T", addr))
}

func (x *Exec) store(addr Value, v Value) {
	switch p := addr.(type) {
	case *Value:
		if p == nil {
			x.goPanic("runtime error: invalid memory address or nil pointer dereference")
		}
		assignInPlace(p, v)
	case *SymPtr:
		for i := range p.arr {
			p.arr[i] = x.iteValue(x.tc.Eq(p.idx, x.tc.Const(64, uint64(i))), v, p.arr[i])
		}
	default:
		panic(fmt.Sprintf("store to %T", addr))
	}
}

// assignInPlace stores v into the slot, keeping the identity of aggregate
// cells (pointers to fields and elements taken earlier stay valid).
func assignInPlace(dst *Value, v Value) {
	switch nv := v.(type) {
	case Struct:
		if old, ok := (*dst).(Struct); ok && len(old) == len(nv) {
			for i := range nv {
				assignInPlace(&old[i], nv[i])
			}
			return
		}
	case Array:
		if old, ok := (*dst).(Array); ok && len(old) == len(nv) {
			for i := range nv {
				assignInPlace(&old[i], nv[i])
			}
			return
		}
	}
	*dst = copyVal(v)
}

// boundsCheck forks on idx in [0,n); the failing side panics.
func (x *Exec) boundsCheck(idx *Term, n int, what string) {
	ok := x.tc.Cmp(OpUlt, idx, x.tc.Const(64, uint64(n)))
	if !x.branch(ok) {
		x.goPanic(fmt.Sprintf("runtime error: index out of range [%s] with length %d", what, n))
	}
}

func (x *Exec) to64(t *Term, signed bool) *Term {
	if t.W == 64 {
		return t
	}
	if signed {
		return x.tc.Sext(t, 64)
	}
	return x.tc.Zext(t, 64)
}

func scalarCells(a []Value) bool {
	for _, c := range a {
		if !scalarTree(c) {
			return false
		}
	}
	return true
}

func scalarTree(v Value) bool {
	switch v := v.(type) {
	case *Term:
		return true
	case Struct:
		for _, f := range v {
			if !scalarTree(f) {
				return false
			}
		}
		return true
	case Array:
		for _, f := range v {
			if !scalarTree(f) {
				return false
			}
		}
		return true
	}
	return false
}

// iteValue merges two values of identical scalar-tree shape.
func (x *Exec) iteValue(c *Term, a, b Value) Value {
	switch a := a.(type) {
	case *Term:
		return x.tc.Ite(c, a, b.(*Term))
	case Struct:
		r := make(Struct, len(a))
		for i := range a {
			r[i] = x.iteValue(c, a[i], b.(Struct)[i])
		}
		return r
	case Array:
		r := make(Array, len(a))
		for i := range a {
			r[i] = x.iteValue(c, a[i], b.(Array)[i])
		}
		return r
	}
	panic("iteValue: non-scalar shape")
}

func (x *Exec) indexAddr(base Value, idx *Term, bt types.Type) Value {
	idx = x.to64(idx, true)
	var cells []Value
	switch b := base.(type) {
	case Slice:
		cells = x.sl(b)
	case *Value:
		if b == nil {
			x.goPanic("runtime error: invalid memory address or nil pointer dereference")
		}
		cells = (*b).(Array)
	default:
		panic(fmt.Sprintf("indexAddr on %T", base))
	}
	x.boundsCheck(idx, len(cells), "sym")
	if idx.IsConst() {
		return &cells[idx.Val]
	}
	if len(cells) <= x.eng.cfg.MaxSymIndex && scalarCells(cells) {
		return &SymPtr{arr: cells, idx: idx}
	}
	i := x.concretize(idx)
	return &cells[i]
}

func (x *Exec) index(base Value, idx *Term) Value {
	idx = x.to64(idx, true)
	var cells []Value
	switch b := base.(type) {
	case Array:
		cells = b
	case StrV:
		x.boundsCheck(idx, len(b), "sym")
		if idx.IsConst() {
			return b[idx.Val]
		}
		var r *Term
		for i := len(b) - 1; i >= 0; i-- {
			if r == nil {
				r = b[i]
			} else {
				r = x.tc.Ite(x.tc.Eq(idx, x.tc.Const(64, uint64(i))), b[i], r)
			}
		}
		return r
	default:
		panic(fmt.Sprintf("index on %T", base))
	}
	x.boundsCheck(idx, len(cells), "sym")
	if idx.IsConst() {
		return copyVal(cells[idx.Val])
	}
	if scalarCells(cells) {
		return x.load(&SymPtr{arr: cells, idx: idx})
	}
	return copyVal(cells[x.concretize(idx)])
}

func (x *Exec) sliceOp(instr *ssa.Slice, base, lo, hi, max Value) Value {
	var cells []Value
	var isStr bool
	var str StrV
	var isNil bool
	switch b := base.(type) {
	case Slice:
		cells = x.sl(b)
		isNil = b.a == nil
	case StrV:
		isStr = true
		str = b
	case *Value:
		if b == nil {
			x.goPanic("runtime error: invalid memory address or nil pointer dereference")
		}
		cells = (*b).(Array)
	default:
		panic(fmt.Sprintf("slice of %T", base))
	}
	n, c := len(cells), cap(cells)
	if isStr {
		n, c = len(str), len(str)
	}
	l, h, m := 0, n, c
	// the three bounds must satisfy 0 <= l <= h <= m <= cap
	get := func(v Value) (*Term, bool) {
		if v == nil {
			return nil, false
		}
		return x.to64(v.(*Term), true), true
	}
	lt, hasL := get(lo)
	ht, hasH := get(hi)
	mt, hasM := get(max)
	tc := x.tc
	if hasM {
		if !x.branch(tc.Cmp(OpUle, mt, tc.Const(64, uint64(c)))) {
			x.goPanic("runtime error: slice bounds out of range [::m] with capacity")
		}
		m = int(x.concretize(mt))
	}
	if hasH {
		lim := m
		if isStr {
			lim = n
		}
		if !x.branch(tc.Cmp(OpUle, ht, tc.Const(64, uint64(lim)))) {
			x.goPanic(fmt.Sprintf("runtime error: slice bounds out of range [:h] with capacity %d", lim))
		}
		h = int(x.concretize(ht))
	}
	if hasL {
		if !x.branch(tc.Cmp(OpUle, lt, tc.Const(64, uint64(h)))) {
			x.goPanic(fmt.Sprintf("runtime error: slice bounds out of range [l:%d]", h))
		}
		l = int(x.concretize(lt))
	}
	if isStr {
		return str[l:h:h]
	}
	if isNil {
		return Slice{}
	}
	return Slice{a: cells[l:h:m]}
}

// ---------- maps ----------

func (x *Exec) mapFind(m *MapV, key Value) int {
	if m == nil {
		return -1
	}
	for i := range m.keys {
		if m.dead[i] {
			continue
		}
		eq := x.equals(m.kt, m.keys[i], key)
		if x.branch(eq) {
			return i
		}
	}
	return -1
}

func (x *Exec) lookup(instr *ssa.Lookup, m Value, key Value) Value {
	switch m := m.(type) {
	case *MapV:
		i := x.mapFind(m, key)
		var v Value
		var ok bool
		if i >= 0 {
			v, ok = copyVal(m.vals[i]), true
		} else {
			v = x.zero(instr.X.Type().Underlying().(*types.Map).Elem())
		}
		if instr.CommaOk {
			return Tuple{v, x.tc.Bool(ok)}
		}
		return v
	case StrV:
		return x.index(m, key.(*Term))
	}
	panic(fmt.Sprintf("lookup on %T", m))
}

func (x *Exec) mapUpdate(m *MapV, key, val Value) {
	if m == nil {
		x.goPanic("assignment to entry in nil map")
	}
	i := x.mapFind(m, key)
	if i >= 0 {
		m.vals[i] = val
		return
	}
	m.keys = append(m.keys, copyVal(key))
	m.vals = append(m.vals, val)
	m.dead = append(m.dead, false)
	m.live++
}

func (x *Exec) mapDelete(m *MapV, key Value) {
	i := x.mapFind(m, key)
	if i < 0 {
		return
	}
	m.dead[i] = true
	m.live--
}

func (x *Exec) rangeIter(v Value, t types.Type) Value {
	switch v := v.(type) {
	case *MapV:
		it := &mapIter{m: v}
		if v != nil {
			n := len(v.keys)
			// Go leaves the order open: fork over rotations (start index), which
			// is what matters to code that stops early, and over full
			// permutations when tiny.
			start := 0
			if n > 1 && x.eng.cfg.MapOrderFork {
				start = x.choose(n, "maporder")
			}
			for i := 0; i < n; i++ {
				it.order = append(it.order, (start+i)%n)
			}
		}
		return it
	case StrV:
		return &strIter{s: v}
	}
	panic(fmt.Sprintf("range over %T", v))
}

func (x *Exec) iterNext(it Value, instr *ssa.Next) Value {
	switch it := it.(type) {
	case *mapIter:
		// entries deleted during iteration are skipped; snapshot by key identity
		for it.i < len(it.order) {
			k := it.order[it.i]
			it.i++
			if k < len(it.m.keys) && !it.m.dead[k] {
				return Tuple{x.tc.Bool(true), copyVal(it.m.keys[k]), copyVal(it.m.vals[k])}
			}
		}
		return Tuple{x.tc.Bool(false), nil, nil}
	case *strIter:
		if it.i >= len(it.s) {
			return Tuple{x.tc.Bool(false), x.tc.Const(64, 0), x.tc.Const(32, 0)}
		}
		b := it.s[it.i]
		if !b.IsConst() {
			// decode only ASCII symbolically
			if !x.branch(x.tc.Cmp(OpUlt, b, x.tc.Const(8, 0x80))) {
				x.unsupported("range over string with symbolic non-ASCII byte")
			}
			i := it.i
			it.i++
			return Tuple{x.tc.Bool(true), x.tc.Const(64, uint64(i)), x.tc.Zext(b, 32)}
		}
		// concrete decode
		rest := it.s[it.i:]
		var buf []byte
		for k := 0; k < len(rest) && k < 4; k++ {
			if !rest[k].IsConst() {
				break
			}
			buf = append(buf, byte(rest[k].Val))
		}
		r, size := decodeRune(buf)
		i := it.i
		it.i += size
		return Tuple{x.tc.Bool(true), x.tc.Const(64, uint64(i)), x.tc.Const(32, uint64(r))}
	}
	panic(fmt.Sprintf("next on %T", it))
}

// ---------- type assertions ----------

func (x *Exec) typeAssert(instr *ssa.TypeAssert, itf Iface) Value {
	var v Value
	err := ""
	if idst, ok := instr.AssertedType.Underlying().(*types.Interface); ok {
		if itf.t == nil {
			err = fmt.Sprintf("interface conversion: interface is nil, not %s", instr.AssertedType)
		} else if meth, _ := types.MissingMethod(itf.t, idst, true); meth != nil {
			err = fmt.Sprintf("interface conversion: %v is not %v: missing method %s", itf.t, idst, meth.Name())
		} else {
			v = itf
		}
	} else if itf.t != nil && types.Identical(itf.t, instr.AssertedType) {
		v = copyVal(itf.v)
	} else {
		err = fmt.Sprintf("interface conversion: interface is %s, not %s", itf.t, instr.AssertedType)
	}
	if err != "" {
		if !instr.CommaOk {
			x.goPanic(err)
		}
		return Tuple{x.zero(instr.AssertedType), x.tc.Bool(false)}
	}
	if instr.CommaOk {
		return Tuple{v, x.tc.Bool(true)}
	}
	return v
}

func posStr(fset *token.FileSet, p token.Pos) string {
	if p == token.NoPos {
		return "?"
	}
	return fset.Position(p).String()
}
