package main

import (
	"fmt"
	"go/token"
	"go/types"
	"unicode/utf8"

	"golang.org/x/tools/go/ssa"
)

func decodeRune(b []byte) (rune, int) {
	if len(b) == 0 {
		return utf8.RuneError, 1
	}
	return utf8.DecodeRune(b)
}

func (x *Exec) unop(fr *frame, instr *ssa.UnOp, v Value) Value {
	switch instr.Op {
	case token.ARROW:
		val, ok := x.chanRecv(v.(*ChanV))
		if val == nil {
			val = x.zero(instr.X.Type().Underlying().(*types.Chan).Elem())
		}
		if instr.CommaOk {
			return Tuple{val, x.tc.Bool(ok)}
		}
		return val
	case token.SUB:
		return x.tc.Neg(v.(*Term))
	case token.MUL:
		return x.load(v)
	case token.NOT:
		return x.tc.BNot(v.(*Term))
	case token.XOR:
		return x.tc.Not(v.(*Term))
	}
	panic(fmt.Sprintf("unop %s", instr.Op))
}

func (x *Exec) binop(op token.Token, t types.Type, a, b Value) Value {
	tc := x.tc
	switch op {
	case token.EQL:
		return x.equals(t, a, b)
	case token.NEQ:
		return tc.BNot(x.equals(t, a, b))
	}
	// strings
	if sa, ok := a.(StrV); ok {
		sb := b.(StrV)
		switch op {
		case token.ADD:
			r := make(StrV, 0, len(sa)+len(sb))
			r = append(r, sa...)
			r = append(r, sb...)
			return r
		case token.LSS, token.LEQ, token.GTR, token.GEQ:
			ca, oka := strConcrete(sa)
			cb, okb := strConcrete(sb)
			if !oka || !okb {
				x.unsupported("ordered comparison of symbolic strings")
			}
			switch op {
			case token.LSS:
				return tc.Bool(ca < cb)
			case token.LEQ:
				return tc.Bool(ca <= cb)
			case token.GTR:
				return tc.Bool(ca > cb)
			default:
				return tc.Bool(ca >= cb)
			}
		}
	}
	if fa, ok := a.(*Opaque); ok && fa.kind == "float" {
		x.unsupported("floating point arithmetic")
	}
	ta, ok := a.(*Term)
	if !ok {
		panic(fmt.Sprintf("binop %s on %T", op, a))
	}
	tb := b.(*Term)
	signed := isSigned(t)
	switch op {
	case token.ADD:
		return tc.Bin(OpAdd, ta, tb)
	case token.SUB:
		return tc.Bin(OpSub, ta, tb)
	case token.MUL:
		return tc.Bin(OpMul, ta, tb)
	case token.QUO, token.REM:
		zero := tc.Const(tb.W, 0)
		if x.branch(tc.Eq(tb, zero)) {
			x.goPanic("runtime error: integer divide by zero")
		}
		if signed {
			if op == token.QUO {
				return tc.Bin(OpSdiv, ta, tb)
			}
			return tc.Bin(OpSrem, ta, tb)
		}
		if op == token.QUO {
			return tc.Bin(OpUdiv, ta, tb)
		}
		return tc.Bin(OpUrem, ta, tb)
	case token.AND:
		if ta.W == 0 {
			return tc.BAnd(ta, tb)
		}
		return tc.Bin(OpAnd, ta, tb)
	case token.OR:
		if ta.W == 0 {
			return tc.BOr(ta, tb)
		}
		return tc.Bin(OpOr, ta, tb)
	case token.XOR:
		return tc.Bin(OpXor, ta, tb)
	case token.AND_NOT:
		return tc.Bin(OpAnd, ta, tc.Not(tb))
	case token.SHL, token.SHR:
		// shift count: any integer type; negative signed count panics
		cnt := tb
		if cnt.W != ta.W {
			if cnt.W > ta.W {
				// count >= width (as unsigned) yields 0 / sign fill; clamp
				big := tc.Cmp(OpUle, tc.Const(cnt.W, uint64(ta.W)), cnt)
				low := tc.Extract(cnt, ta.W-1, 0)
				cnt = tc.Ite(big, tc.Const(ta.W, uint64(ta.W)), low)
			} else {
				cnt = tc.Zext(cnt, ta.W)
			}
		}
		if op == token.SHL {
			return tc.Bin(OpShl, ta, cnt)
		}
		if signed {
			return tc.Bin(OpAshr, ta, cnt)
		}
		return tc.Bin(OpLshr, ta, cnt)
	case token.LSS:
		if signed {
			return tc.Cmp(OpSlt, ta, tb)
		}
		return tc.Cmp(OpUlt, ta, tb)
	case token.LEQ:
		if signed {
			return tc.Cmp(OpSle, ta, tb)
		}
		return tc.Cmp(OpUle, ta, tb)
	case token.GTR:
		if signed {
			return tc.Cmp(OpSlt, tb, ta)
		}
		return tc.Cmp(OpUlt, tb, ta)
	case token.GEQ:
		if signed {
			return tc.Cmp(OpSle, tb, ta)
		}
		return tc.Cmp(OpUle, tb, ta)
	}
	panic(fmt.Sprintf("binop %s", op))
}

func (x *Exec) conv(dst, src types.Type, v Value) Value {
	ud := dst.Underlying()
	us := src.Underlying()
	if b, ok := us.(*types.Basic); ok && b.Kind() == types.UnsafePointer {
		return v
	}
	if b, ok := ud.(*types.Basic); ok && b.Kind() == types.UnsafePointer {
		return v
	}
	switch us := us.(type) {
	case *types.Pointer, *types.Signature, *types.Chan, *types.Map, *types.Struct, *types.Array, *types.Interface:
		return v
	case *types.Slice:
		// []byte / []rune -> string
		if db, ok := ud.(*types.Basic); ok && db.Info()&types.IsString != 0 {
			s := v.(Slice)
			eb, _ := us.Elem().Underlying().(*types.Basic)
			if eb != nil && eb.Kind() == types.Int32 {
				var out []byte
				for _, c := range x.sl(s) {
					t := c.(*Term)
					if !t.IsConst() {
						x.unsupported("[]rune->string of symbolic rune")
					}
					out = utf8.AppendRune(out, rune(t.Val))
				}
				return x.strConst(string(out))
			}
			r := make(StrV, len(x.sl(s)))
			for i, c := range x.sl(s) {
				r[i] = c.(*Term)
			}
			return r
		}
		return v
	case *types.Basic:
		if us.Info()&types.IsString != 0 {
			switch d := ud.(type) {
			case *types.Slice:
				s := v.(StrV)
				eb := d.Elem().Underlying().(*types.Basic)
				if eb.Kind() == types.Int32 {
					c, ok := strConcrete(s)
					if !ok {
						x.unsupported("string->[]rune of symbolic string")
					}
					var a []Value
					for _, r := range c {
						a = append(a, x.tc.Const(32, uint64(r)))
					}
					if a == nil {
						a = []Value{}
					}
					return Slice{a: a}
				}
				a := make([]Value, len(s))
				for i, c := range s {
					a[i] = c
				}
				return Slice{a: a}
			case *types.Basic:
				if d.Info()&types.IsString != 0 {
					return v
				}
			}
		}
		if db, ok := ud.(*types.Basic); ok {
			if us.Info()&types.IsInteger != 0 && db.Info()&types.IsString != 0 {
				t := v.(*Term)
				if !t.IsConst() {
					x.unsupported("int->string of symbolic value")
				}
				return x.strConst(string(rune(t.SVal())))
			}
			if db.Kind() == types.UnsafePointer || us.Kind() == types.UnsafePointer {
				return v // pointers are modelled uniformly
			}
			if us.Info()&types.IsInteger != 0 && db.Info()&types.IsInteger != 0 {
				t := v.(*Term)
				w := typeWidth(db)
				if w == t.W {
					return t
				}
				if w < t.W {
					return x.tc.Extract(t, w-1, 0)
				}
				if isSigned(us) {
					return x.tc.Sext(t, w)
				}
				return x.tc.Zext(t, w)
			}
			if us.Info()&types.IsBoolean != 0 && db.Info()&types.IsBoolean != 0 {
				return v
			}
			if us.Info()&types.IsFloat != 0 || db.Info()&types.IsFloat != 0 {
				x.unsupported("float conversion")
			}
		}
	}
	panic(fmt.Sprintf("conv %s -> %s unsupported", src, dst))
}

// ---------- builtins ----------

func (x *Exec) callBuiltin(caller *frame, fn *ssa.Builtin, args []Value) Value {
	tc := x.tc
	switch fn.Name() {
	case "append":
		if len(args) == 1 {
			return args[0]
		}
		dst := args[0].(Slice)
		var add []Value
		switch s := args[1].(type) {
		case StrV:
			add = make([]Value, len(s))
			for i, c := range s {
				add[i] = c
			}
		case Slice:
			add = make([]Value, len(x.sl(s)))
			for i, c := range x.sl(s) {
				add[i] = copyVal(c)
			}
			if len(add) == 0 {
				return dst
			}
		}
		if len(add) == 0 {
			return dst
		}
		if len(x.sl(dst))+len(add) > x.eng.cfg.MaxAlloc {
			x.unsupported("append beyond allocation bound")
		}
		n := len(dst.a)
		if n+len(add) <= cap(dst.a) {
			r := dst.a[:n+len(add)]
			copy(r[n:], add)
			return Slice{a: r}
		}
		// grow like the runtime: new backing array
		nc := 2 * cap(dst.a)
		if nc < n+len(add) {
			nc = n + len(add)
		}
		r := make([]Value, n+len(add), nc)
		copy(r, dst.a)
		copy(r[n:], add)
		// the spare capacity holds zero values of the element type
		if nc > n+len(add) && len(r) > 0 {
			z := zeroLike(tc, r[0])
			spare := r[len(r):nc]
			for i := range spare {
				spare[i] = copyVal(z)
			}
		}
		return Slice{a: r}
	case "copy":
		dst := args[0].(Slice)
		var src []Value
		switch s := args[1].(type) {
		case StrV:
			src = make([]Value, len(s))
			for i, c := range s {
				src[i] = c
			}
		case Slice:
			src = x.sl(s)
		}
		n := len(x.sl(dst))
		if len(src) < n {
			n = len(src)
		}
		tmp := make([]Value, n)
		for i := 0; i < n; i++ {
			tmp[i] = copyVal(src[i])
		}
		copy(dst.a, tmp)
		return tc.Const(64, uint64(n))
	case "close":
		x.chanClose(args[0].(*ChanV))
		return nil
	case "delete":
		x.mapDelete(args[0].(*MapV), args[1])
		return nil
	case "print", "println":
		return nil
	case "len":
		switch a := args[0].(type) {
		case StrV:
			return tc.Const(64, uint64(len(a)))
		case Slice:
			if a.virt != nil {
				return a.virt
			}
			return tc.Const(64, uint64(len(a.a)))
		case Array:
			return tc.Const(64, uint64(len(a)))
		case *Value:
			return tc.Const(64, uint64(len((*a).(Array))))
		case *MapV:
			if a == nil {
				return tc.Const(64, 0)
			}
			return tc.Const(64, uint64(a.live))
		case *ChanV:
			if a == nil {
				return tc.Const(64, 0)
			}
			return tc.Const(64, uint64(len(a.buf)))
		}
		panic(fmt.Sprintf("len of %T", args[0]))
	case "cap":
		switch a := args[0].(type) {
		case Slice:
			if a.virt != nil {
				return a.virt
			}
			return tc.Const(64, uint64(cap(a.a)))
		case Array:
			return tc.Const(64, uint64(len(a)))
		case *Value:
			return tc.Const(64, uint64(len((*a).(Array))))
		case *ChanV:
			if a == nil {
				return tc.Const(64, 0)
			}
			return tc.Const(64, uint64(a.cap))
		}
		panic(fmt.Sprintf("cap of %T", args[0]))
	case "min", "max":
		r := args[0].(*Term)
		signed := true
		if sig, ok := fn.Type().(*types.Signature); ok && sig.Params().Len() > 0 {
			signed = isSigned(sig.Params().At(0).Type())
		}
		for _, a := range args[1:] {
			at := a.(*Term)
			var less *Term
			op := OpUlt
			if signed {
				op = OpSlt
			}
			if fn.Name() == "min" {
				less = tc.Cmp(op, at, r)
			} else {
				less = tc.Cmp(op, r, at)
			}
			r = tc.Ite(less, at, r)
		}
		return r
	case "panic":
		panic(targetPanic{args[0]})
	case "recover":
		return x.doRecover(caller)
	case "clear":
		switch a := args[0].(type) {
		case *MapV:
			for i := range a.dead {
				if !a.dead[i] {
					a.dead[i] = true
				}
			}
			a.live = 0
		case Slice:
			for i := range x.sl(a) {
				a.a[i] = zeroLike(tc, a.a[i])
			}
		}
		return nil
	case "ssa:wrapnilchk":
		recv := args[0]
		if p, ok := recv.(*Value); ok && p == nil {
			x.goPanic("value method called using nil pointer")
		}
		return recv
	}
	panic("unknown builtin " + fn.Name())
}

// zeroLike gives a zero of the same shape as v (used where no type is at hand).
func zeroLike(tc *TermCtx, v Value) Value {
	switch v := v.(type) {
	case *Term:
		if v.W == 0 {
			return tc.Bool(false)
		}
		return tc.Const(v.W, 0)
	case StrV:
		return StrV(nil)
	case *Value:
		return (*Value)(nil)
	case Struct:
		r := make(Struct, len(v))
		for i := range v {
			r[i] = zeroLike(tc, v[i])
		}
		return r
	case Array:
		r := make(Array, len(v))
		for i := range v {
			r[i] = zeroLike(tc, v[i])
		}
		return r
	case Slice:
		return Slice{}
	case Iface:
		return Iface{}
	case *ChanV:
		return (*ChanV)(nil)
	case *MapV:
		return (*MapV)(nil)
	case *Closure, *ssa.Function:
		return (*ssa.Function)(nil)
	}
	return nil
}

func (x *Exec) doRecover(caller *frame) Value {
	// recover() is effective only when called directly by a deferred function
	// of a panicking frame.
	if caller != nil && caller.caller != nil && caller.caller.panicking {
		fr := caller.caller
		fr.panicking = false
		if tp, ok := fr.panic.(targetPanic); ok {
			if i, ok := tp.v.(Iface); ok {
				return i
			}
			return Iface{t: types.Typ[types.String], v: x.strConst(describe(tp.v))}
		}
	}
	return Iface{}
}

// ---------- channels ----------

func dequeue(q *[]*sudog) *sudog {
	for len(*q) > 0 {
		sg := (*q)[0]
		*q = (*q)[1:]
		if sg.sel.fired {
			continue
		}
		return sg
	}
	return nil
}

func hasWaiter(q []*sudog, notG *Goroutine) bool {
	for _, sg := range q {
		if !sg.sel.fired && sg.g != notG {
			return true
		}
	}
	return false
}

func (x *Exec) chanSendReady(ch *ChanV) bool {
	if ch == nil || ch.never {
		return false
	}
	return ch.closed || hasWaiter(ch.recvq, x.cur) || len(ch.buf) < ch.cap
}

func (x *Exec) chanRecvReady(ch *ChanV) bool {
	if ch == nil {
		return false
	}
	if ch.ticker {
		return true
	}
	return len(ch.buf) > 0 || hasWaiter(ch.sendq, x.cur) || ch.closed
}

// doSend performs a send that is known to be possible.
func (x *Exec) doSend(ch *ChanV, v Value) {
	if ch.closed {
		x.goPanic("send on closed channel")
	}
	if sg := dequeue(&ch.recvq); sg != nil {
		sg.val, sg.ok = v, true
		sg.sel.fired = true
		sg.sel.which = sg.caseIdx
		return
	}
	ch.buf = append(ch.buf, v)
}

// doRecv performs a receive that is known to be possible.
func (x *Exec) doRecv(ch *ChanV) (Value, bool) {
	if ch.ticker {
		return nil, true
	}
	if len(ch.buf) > 0 {
		v := ch.buf[0]
		ch.buf = ch.buf[1:]
		if sg := dequeue(&ch.sendq); sg != nil {
			ch.buf = append(ch.buf, sg.val)
			sg.sel.fired = true
			sg.sel.which = sg.caseIdx
		}
		return v, true
	}
	if sg := dequeue(&ch.sendq); sg != nil {
		sg.sel.fired = true
		sg.sel.which = sg.caseIdx
		return sg.val, true
	}
	if ch.closed {
		return nil, false
	}
	panic("doRecv: not ready")
}

func (x *Exec) chanSend(ch *ChanV, v Value) {
	x.maybePreempt()
	if ch == nil || ch.never {
		x.block("send on nil channel", func() bool { return false })
		return
	}
	if x.chanSendReady(ch) {
		x.doSend(ch, v)
		return
	}
	sel := &selState{}
	sg := &sudog{g: x.cur, val: v, sel: sel, isSend: true}
	ch.sendq = append(ch.sendq, sg)
	x.block("send on "+chanDesc(ch), func() bool { return sel.fired })
	if sg.closedPanic {
		x.goPanic("send on closed channel")
	}
}

func (x *Exec) chanRecv(ch *ChanV) (Value, bool) {
	x.maybePreempt()
	if ch == nil {
		x.block("receive from nil channel", func() bool { return false })
		return nil, false
	}
	if x.chanRecvReady(ch) {
		return x.doRecv(ch)
	}
	if ch.never {
		x.block(fmt.Sprintf("receive from never-ready chan#%d", ch.id), func() bool { return ch.closed })
		return nil, false
	}
	sel := &selState{}
	sg := &sudog{g: x.cur, sel: sel}
	ch.recvq = append(ch.recvq, sg)
	x.block("receive from "+chanDesc(ch), func() bool { return sel.fired })
	return sg.val, sg.ok
}

func (x *Exec) chanClose(ch *ChanV) {
	if ch == nil {
		x.goPanic("close of nil channel")
	}
	if ch.closed {
		x.goPanic("close of closed channel")
	}
	ch.closed = true
	for {
		sg := dequeue(&ch.recvq)
		if sg == nil {
			break
		}
		sg.val, sg.ok = nil, false
		sg.sel.fired = true
		sg.sel.which = sg.caseIdx
	}
	for {
		sg := dequeue(&ch.sendq)
		if sg == nil {
			break
		}
		sg.closedPanic = true
		sg.sel.fired = true
		sg.sel.which = sg.caseIdx
	}
}

func (x *Exec) selectOp(fr *frame, instr *ssa.Select) Value {
	x.maybePreempt()
	type scase struct {
		ch   *ChanV
		send bool
		val  Value
	}
	cases := make([]scase, len(instr.States))
	for i, st := range instr.States {
		cases[i].ch = fr.get(st.Chan).(*ChanV)
		if st.Dir == types.SendOnly {
			cases[i].send = true
			cases[i].val = copyVal(fr.get(st.Send))
		}
	}
	var ready []int
	for i, c := range cases {
		if c.send {
			if x.chanSendReady(c.ch) {
				ready = append(ready, i)
			}
		} else if x.chanRecvReady(c.ch) {
			ready = append(ready, i)
		}
	}
	chosen := -1
	var recvVal Value
	recvOk := false
	if len(ready) > 0 {
		k := 0
		if len(ready) > 1 {
			k = x.choose(len(ready), "select")
		}
		chosen = ready[k]
		c := cases[chosen]
		if c.send {
			x.doSend(c.ch, c.val)
		} else {
			recvVal, recvOk = x.doRecv(c.ch)
			if c.ch.ticker {
				// time passes: everybody else gets a chance to run
				x.block("tick", func() bool { return true })
			}
		}
	} else if instr.Blocking {
		sel := &selState{}
		sgs := make([]*sudog, len(cases))
		any := false
		for i, c := range cases {
			if c.ch == nil {
				continue
			}
			if c.ch.never && c.send {
				continue
			}
			sg := &sudog{g: x.cur, sel: sel, caseIdx: i, isSend: c.send, val: c.val}
			sgs[i] = sg
			if c.send {
				c.ch.sendq = append(c.ch.sendq, sg)
			} else {
				c.ch.recvq = append(c.ch.recvq, sg)
			}
			any = true
		}
		_ = any
		x.block("select", func() bool { return sel.fired })
		chosen = sel.which
		sg := sgs[chosen]
		if sg.closedPanic {
			x.goPanic("send on closed channel")
		}
		if !cases[chosen].send {
			recvVal, recvOk = sg.val, sg.ok
		}
	}
	r := Tuple{x.tc.Const(64, uint64(int64(chosen))), x.tc.Bool(recvOk)}
	for i, st := range instr.States {
		if st.Dir == types.RecvOnly {
			var v Value
			if i == chosen && recvOk && recvVal != nil {
				v = recvVal
			} else {
				v = x.zero(st.Chan.Type().Underlying().(*types.Chan).Elem())
			}
			r = append(r, v)
		}
	}
	return r
}

func chanDesc(ch *ChanV) string {
	t := "?"
	if ch.et != nil {
		t = ch.et.String()
	}
	return fmt.Sprintf("chan %s (cap %d)", t, ch.cap)
}
