package main

// Intrinsics: models of standard-library functions that cannot (or should
// not) be executed from SSA, and the verif* harness API.

import (
	"fmt"
	"go/types"
	"strings"

	"golang.org/x/tools/go/ssa"
)

type intrinsic func(fr *frame, args []Value) Value

var intrinsics map[string]intrinsic

func init() {
	intrinsics = map[string]intrinsic{
		"errors.Is":        inErrorsIs,
		"errors.As":        inErrorsAs,
		"fmt.Errorf":       inFmtErrorf,
		"fmt.Sprintf":      inFmtSprintf,
		"fmt.Sprint":       inOpaqueString,
		"fmt.Sprintln":     inOpaqueString,
		"strings.IndexByte": inStringsIndexByte,
		// strings are immutable values in the engine: a clone is the string itself
		"strings.Clone":                func(fr *frame, args []Value) Value { return args[0] },
		"internal/stringslite.Clone":   func(fr *frame, args []Value) Value { return args[0] },
		"bytes.IndexByte":  inBytesIndexByte,
		"sort.Slice":       inSortSlice,

		"(*sync.Mutex).Lock":      inMutexLock,
		"(*sync.Mutex).Unlock":    inMutexUnlock,
		"(*sync.Mutex).TryLock":   inMutexTryLock,
		"(*sync.RWMutex).Lock":    inMutexLock,
		"(*sync.RWMutex).Unlock":  inMutexUnlock,
		"(*sync.RWMutex).RLock":   inMutexLock,
		"(*sync.RWMutex).RUnlock": inMutexUnlock,
		"(*sync.WaitGroup).Add":   inWGAdd,
		"(*sync.WaitGroup).Done":  inWGDone,
		"(*sync.WaitGroup).Wait":  inWGWait,
		"(*sync.Pool).Get":        inPoolGet,
		"(*sync.Pool).Put":        inPoolPut,
		"(*sync.Once).Do":         inOnceDo,

		"sync/atomic.AddUint64":            inAtomicAdd,
		"sync/atomic.AddUint32":            inAtomicAdd,
		"sync/atomic.AddInt64":             inAtomicAdd,
		"sync/atomic.AddInt32":             inAtomicAdd,
		"sync/atomic.LoadUint64":           inAtomicLoad,
		"sync/atomic.LoadUint32":           inAtomicLoad,
		"sync/atomic.LoadInt64":            inAtomicLoad,
		"sync/atomic.LoadInt32":            inAtomicLoad,
		"sync/atomic.LoadPointer":          inAtomicLoad,
		"sync/atomic.StoreUint64":          inAtomicStore,
		"sync/atomic.StoreUint32":          inAtomicStore,
		"sync/atomic.StoreInt64":           inAtomicStore,
		"sync/atomic.StoreInt32":           inAtomicStore,
		"sync/atomic.StorePointer":         inAtomicStore,
		"sync/atomic.CompareAndSwapPointer": inAtomicCAS,
		"sync/atomic.CompareAndSwapUint32": inAtomicCAS,
		"sync/atomic.CompareAndSwapUint64": inAtomicCAS,
		"sync/atomic.CompareAndSwapInt32":  inAtomicCAS,
		"sync/atomic.CompareAndSwapInt64":  inAtomicCAS,
		"sync/atomic.SwapUint32":           inAtomicSwap,
		"sync/atomic.SwapUint64":           inAtomicSwap,
		"sync/atomic.SwapPointer":          inAtomicSwap,

		"time.Now":             inTimeNow,
		"(time.Time).Add":      inTimeAdd,
		"(time.Time).IsZero":   inTimeIsZero,
		"time.NewTicker":       inNewTicker,
		"(*time.Ticker).Stop":  inNop,
		"time.AfterFunc":       inAfterFunc,
		"time.Sleep":           inSleep,
		"(*time.Timer).Stop":   inNopFalse,
		"runtime.Gosched":      inNop,
		"runtime.KeepAlive":    inNop,
	}
}

func inNop(fr *frame, args []Value) Value      { return nil }
func inNopFalse(fr *frame, args []Value) Value { return fr.x.tc.Bool(false) }

// ---------- error trees ----------

func (x *Exec) callMethod(recv Iface, name string, args ...Value) (Value, bool) {
	if recv.t == nil {
		return nil, false
	}
	ms := x.eng.prog.MethodSets.MethodSet(recv.t)
	for i := 0; i < ms.Len(); i++ {
		sel := ms.At(i)
		if sel.Obj().Name() == name {
			fn := x.eng.prog.MethodValue(sel)
			if fn == nil {
				return nil, false
			}
			all := append([]Value{copyVal(recv.v)}, args...)
			return x.call(nil, fn, all), true
		}
	}
	return nil, false
}

func methodSig(prog *ssa.Program, t types.Type, name string) *types.Signature {
	ms := prog.MethodSets.MethodSet(t)
	for i := 0; i < ms.Len(); i++ {
		if ms.At(i).Obj().Name() == name {
			return ms.At(i).Type().(*types.Signature)
		}
	}
	return nil
}

// errors.Is(err, target): the documented tree walk.
func inErrorsIs(fr *frame, args []Value) Value {
	x := fr.x
	err := args[0].(Iface)
	target := args[1].(Iface)
	if err.t == nil || target.t == nil {
		return x.tc.Bool(err.t == nil && target.t == nil)
	}
	comparable := types.Comparable(target.t)
	return x.tc.Bool(x.errorsIs(err, target, comparable, 0))
}

func (x *Exec) errorsIs(err, target Iface, comparable bool, depth int) bool {
	if depth > 64 {
		x.unsupported("errors.Is: error chain deeper than 64")
	}
	for {
		if comparable && err.t != nil && types.Identical(err.t, target.t) {
			if x.branch(x.equals(err.t, err.v, target.v)) {
				return true
			}
		}
		if sig := methodSig(x.eng.prog, err.t, "Is"); sig != nil && sig.Params().Len() == 1 && sig.Results().Len() == 1 {
			r, _ := x.callMethod(err, "Is", target)
			if x.branch(r.(*Term)) {
				return true
			}
		}
		sig := methodSig(x.eng.prog, err.t, "Unwrap")
		if sig == nil || sig.Params().Len() != 0 || sig.Results().Len() != 1 {
			return false
		}
		r, _ := x.callMethod(err, "Unwrap")
		switch r := r.(type) {
		case Iface:
			if r.t == nil {
				return false
			}
			err = r
		case Slice:
			for _, e := range x.sl(r) {
				ei := e.(Iface)
				if ei.t == nil {
					continue
				}
				if x.errorsIs(ei, target, comparable, depth+1) {
					return true
				}
			}
			return false
		default:
			return false
		}
	}
}

// errors.As(err, target any) bool
func inErrorsAs(fr *frame, args []Value) Value {
	x := fr.x
	err := args[0].(Iface)
	target := args[1].(Iface)
	if err.t == nil {
		return x.tc.Bool(false)
	}
	if target.t == nil {
		x.goPanic("errors: target cannot be nil")
	}
	pt, ok := target.t.Underlying().(*types.Pointer)
	if !ok {
		x.goPanic("errors: target must be a non-nil pointer")
	}
	slot := target.v.(*Value)
	if slot == nil {
		x.goPanic("errors: target must be a non-nil pointer")
	}
	return x.tc.Bool(x.errorsAs(err, pt.Elem(), slot, 0))
}

func (x *Exec) errorsAs(err Iface, tt types.Type, slot *Value, depth int) bool {
	if depth > 64 {
		x.unsupported("errors.As: error chain deeper than 64")
	}
	for {
		if it, ok := tt.Underlying().(*types.Interface); ok {
			if types.Implements(err.t, it) {
				*slot = err
				return true
			}
		} else if types.Identical(err.t, tt) {
			*slot = copyVal(err.v)
			return true
		}
		if sig := methodSig(x.eng.prog, err.t, "As"); sig != nil && sig.Params().Len() == 1 {
			r, _ := x.callMethod(err, "As", Iface{t: types.NewPointer(tt), v: slot})
			if x.branch(r.(*Term)) {
				return true
			}
		}
		sig := methodSig(x.eng.prog, err.t, "Unwrap")
		if sig == nil || sig.Params().Len() != 0 || sig.Results().Len() != 1 {
			return false
		}
		r, _ := x.callMethod(err, "Unwrap")
		switch r := r.(type) {
		case Iface:
			if r.t == nil {
				return false
			}
			err = r
		case Slice:
			for _, e := range x.sl(r) {
				ei := e.(Iface)
				if ei.t == nil {
					continue
				}
				if x.errorsAs(ei, tt, slot, depth+1) {
					return true
				}
			}
			return false
		default:
			return false
		}
	}
}

func (x *Exec) namedType(pkgPath, name string) types.Type {
	for _, p := range x.eng.prog.AllPackages() {
		if p.Pkg.Path() == pkgPath {
			if o := p.Pkg.Scope().Lookup(name); o != nil {
				return o.Type()
			}
		}
	}
	x.unsupported("type %s.%s not loaded", pkgPath, name)
	return nil
}

// fmt.Errorf(format, a...) — format must be constant; %w operands become the
// Unwrap children, the text is not modelled.
func inFmtErrorf(fr *frame, args []Value) Value {
	x := fr.x
	format, ok := strConcrete(args[0].(StrV))
	if !ok {
		x.unsupported("fmt.Errorf with non-constant format")
	}
	operands := x.sl(args[1].(Slice))
	// scan verbs
	var wrapped []Value
	argi := 0
	for i := 0; i < len(format); i++ {
		if format[i] != '%' {
			continue
		}
		i++
		for i < len(format) && strings.IndexByte("+-# 0123456789.", format[i]) >= 0 {
			i++
		}
		if i >= len(format) {
			break
		}
		if format[i] == '%' {
			continue
		}
		if format[i] == 'w' && argi < len(operands) {
			if e, ok := operands[argi].(Iface); ok && e.t != nil {
				if types.Implements(e.t, errorIface) {
					wrapped = append(wrapped, e)
				}
			}
		}
		argi++
	}
	msg := x.strConst("fmt.Errorf(" + format + ")")
	errT := types.Universe.Lookup("error").Type()
	_ = errT
	switch len(wrapped) {
	case 0:
		t := x.namedType("fmt", "wrapError") // placeholder to make sure fmt is loaded
		_ = t
		et := x.namedType("errors", "errorString")
		p := new(Value)
		*p = Struct{msg}
		return Iface{t: types.NewPointer(et), v: p}
	case 1:
		et := x.namedType("fmt", "wrapError")
		p := new(Value)
		*p = Struct{msg, wrapped[0]}
		return Iface{t: types.NewPointer(et), v: p}
	default:
		et := x.namedType("fmt", "wrapErrors")
		p := new(Value)
		*p = Struct{msg, Slice{a: wrapped}}
		return Iface{t: types.NewPointer(et), v: p}
	}
}

var errorIface = types.Universe.Lookup("error").Type().Underlying().(*types.Interface)

func hexDigit(tc *TermCtx, nib *Term) *Term { // nib: 4-bit
	n8 := tc.Zext(nib, 8)
	return tc.Ite(tc.Cmp(OpUlt, n8, tc.Const(8, 10)),
		tc.Bin(OpAdd, n8, tc.Const(8, '0')),
		tc.Bin(OpAdd, n8, tc.Const(8, 'a'-10)))
}

// fmt.Sprintf: exact for "%s%05x" and "%s%05x.spool"; opaque text otherwise.
func inFmtSprintf(fr *frame, args []Value) Value {
	x := fr.x
	format, ok := strConcrete(args[0].(StrV))
	if !ok {
		x.unsupported("fmt.Sprintf with non-constant format")
	}
	operands := x.sl(args[1].(Slice))
	if format == "%s%05x" || format == "%s%05x.spool" {
		s := operands[0].(Iface)
		var prefix StrV
		switch v := s.v.(type) {
		case StrV:
			prefix = v
		default:
			x.unsupported("Sprintf %%s of %T", s.v)
		}
		key := operands[1].(Iface).v.(*Term)
		key = x.to64(key, false)
		// keys are 17-bit by contract; larger ones print more digits
		if !x.branch(x.tc.Cmp(OpUlt, key, x.tc.Const(64, 1<<20))) {
			x.unsupported("Sprintf(%%05x) of a key >= 2^20")
		}
		out := append(StrV{}, prefix...)
		for d := 4; d >= 0; d-- {
			out = append(out, hexDigit(x.tc, x.tc.Extract(key, d*4+3, d*4)))
		}
		out = append(out, x.strConst(format[len("%s%05x"):])...)
		return out
	}
	return x.strConst("fmt.Sprintf(" + format + ")")
}

func inOpaqueString(fr *frame, args []Value) Value {
	return fr.x.strConst("<fmt>")
}

func inStringsIndexByte(fr *frame, args []Value) Value {
	x := fr.x
	s := args[0].(StrV)
	c := args[1].(*Term)
	return x.indexByte(s, c)
}

func inBytesIndexByte(fr *frame, args []Value) Value {
	x := fr.x
	sl := args[0].(Slice)
	s := make(StrV, len(x.sl(sl)))
	for i, v := range sl.a {
		s[i] = v.(*Term)
	}
	return x.indexByte(s, args[1].(*Term))
}

func (x *Exec) indexByte(s StrV, c *Term) *Term {
	tc := x.tc
	r := tc.Const(64, ^uint64(0))
	for i := len(s) - 1; i >= 0; i-- {
		r = tc.Ite(tc.Eq(s[i], c), tc.Const(64, uint64(i)), r)
	}
	return r
}

// sort.Slice: insertion sort calling the real less closure.
func inSortSlice(fr *frame, args []Value) Value {
	x := fr.x
	sl := args[0].(Iface).v.(Slice)
	less := args[1]
	n := len(x.sl(sl))
	for i := 1; i < n; i++ {
		for j := i; j > 0; j-- {
			r := x.call(fr, less, []Value{x.tc.Const(64, uint64(j)), x.tc.Const(64, uint64(j-1))})
			if !x.branch(r.(*Term)) {
				break
			}
			sl.a[j], sl.a[j-1] = sl.a[j-1], sl.a[j]
		}
	}
	return nil
}

// ---------- sync ----------

func (x *Exec) mutexOf(p *Value) *mutexState {
	m := x.mutexes[p]
	if m == nil {
		m = &mutexState{}
		x.mutexes[p] = m
	}
	return m
}

func inMutexLock(fr *frame, args []Value) Value {
	x := fr.x
	m := x.mutexOf(args[0].(*Value))
	x.maybePreempt()
	if m.locked {
		x.block("mutex lock", func() bool { return !m.locked })
	}
	m.locked = true
	return nil
}

func inMutexTryLock(fr *frame, args []Value) Value {
	x := fr.x
	m := x.mutexOf(args[0].(*Value))
	if m.locked {
		return x.tc.Bool(false)
	}
	m.locked = true
	return x.tc.Bool(true)
}

func inMutexUnlock(fr *frame, args []Value) Value {
	x := fr.x
	m := x.mutexOf(args[0].(*Value))
	if !m.locked {
		x.goPanic("sync: unlock of unlocked mutex")
	}
	m.locked = false
	return nil
}

func inWGAdd(fr *frame, args []Value) Value {
	x := fr.x
	m := x.mutexOf(args[0].(*Value))
	m.readers += x.concreteInt(args[1])
	if m.readers < 0 {
		x.goPanic("sync: negative WaitGroup counter")
	}
	return nil
}

func inWGDone(fr *frame, args []Value) Value {
	x := fr.x
	m := x.mutexOf(args[0].(*Value))
	m.readers--
	if m.readers < 0 {
		x.goPanic("sync: negative WaitGroup counter")
	}
	return nil
}

func inWGWait(fr *frame, args []Value) Value {
	x := fr.x
	m := x.mutexOf(args[0].(*Value))
	if m.readers > 0 {
		x.block("WaitGroup.Wait", func() bool { return m.readers == 0 })
	}
	return nil
}

// sync.Pool: Get always calls New (a recycled buffer is indistinguishable from
// a new one for code that does not read before writing; harnesses that care
// use verifPoolDirty to get nondeterministic content).
func inPoolGet(fr *frame, args []Value) Value {
	x := fr.x
	p := args[0].(*Value)
	if st := x.poolStash[p]; len(st) > 0 && x.eng.cfg.PoolReuse {
		v := st[len(st)-1]
		x.poolStash[p] = st[:len(st)-1]
		return v
	}
	pool := (*p).(Struct)
	newFn := pool[len(pool)-1]
	if isNilFunc(newFn) {
		return Iface{}
	}
	r := x.call(fr, newFn, nil)
	if x.eng.cfg.PoolDirty {
		// stale content: every scalar cell of a fresh [N]byte becomes nondeterministic
		if it, ok := r.(Iface); ok {
			if ptr, ok := it.v.(*Value); ok && ptr != nil {
				if arr, ok := (*ptr).(Array); ok && len(arr) <= 256 {
					for i := range arr {
						if t, ok := arr[i].(*Term); ok && t.W == 8 {
							arr[i] = x.freshVar("pool", 8)
						}
					}
				}
			}
		}
	}
	return r
}

func inPoolPut(fr *frame, args []Value) Value {
	x := fr.x
	if x.eng.cfg.PoolReuse {
		p := args[0].(*Value)
		x.poolStash[p] = append(x.poolStash[p], args[1])
	}
	return nil
}

func inOnceDo(fr *frame, args []Value) Value {
	x := fr.x
	p := args[0].(*Value)
	if x.onceDone[p] {
		return nil
	}
	x.onceDone[p] = true
	x.call(fr, args[1], nil)
	return nil
}

func inAtomicAdd(fr *frame, args []Value) Value {
	x := fr.x
	x.maybePreempt()
	old := x.load(args[0]).(*Term)
	nv := x.tc.Bin(OpAdd, old, args[1].(*Term))
	x.store(args[0], nv)
	return nv
}

func inAtomicLoad(fr *frame, args []Value) Value {
	fr.x.maybePreempt()
	return fr.x.load(args[0])
}

func inAtomicStore(fr *frame, args []Value) Value {
	fr.x.maybePreempt()
	fr.x.store(args[0], args[1])
	return nil
}

func inAtomicSwap(fr *frame, args []Value) Value {
	fr.x.maybePreempt()
	old := fr.x.load(args[0])
	fr.x.store(args[0], args[1])
	return old
}

func inAtomicCAS(fr *frame, args []Value) Value {
	x := fr.x
	x.maybePreempt()
	cur := x.load(args[0])
	eq := x.equals(nil, cur, args[1])
	if x.branch(eq) {
		x.store(args[0], args[2])
		return x.tc.Bool(true)
	}
	return x.tc.Bool(false)
}

func (x *Exec) atomicIntrinsic(fn *ssa.Function, args []Value) (Value, bool) {
	return nil, false
}

// ---------- time ----------

func (x *Exec) timeStruct(t types.Type, ext *Term) Value {
	st := t.Underlying().(*types.Struct)
	s := x.zero(st).(Struct)
	s[0] = x.tc.Const(64, 1)
	s[1] = ext
	return s
}

func inTimeNow(fr *frame, args []Value) Value {
	x := fr.x
	if x.timeNow == nil {
		x.timeNow = x.tc.Const(64, 1000)
	} else {
		x.timeNow = x.tc.Bin(OpAdd, x.timeNow, x.tc.Const(64, 1))
	}
	return x.timeStruct(fr.fn.Signature.Results().At(0).Type(), x.timeNow)
}

func inTimeAdd(fr *frame, args []Value) Value {
	x := fr.x
	t := args[0].(Struct)
	r := copyVal(t).(Struct)
	r[1] = x.tc.Bin(OpAdd, t[1].(*Term), args[1].(*Term))
	return r
}

func inTimeIsZero(fr *frame, args []Value) Value {
	x := fr.x
	t := args[0].(Struct)
	return x.tc.BAnd(x.tc.Eq(t[0].(*Term), x.tc.Const(64, 0)), x.tc.Eq(t[1].(*Term), x.tc.Const(64, 0)))
}

func inNewTicker(fr *frame, args []Value) Value {
	x := fr.x
	pt := fr.fn.Signature.Results().At(0).Type()
	st := deref(pt)
	s := x.zero(st).(Struct)
	x.nextChan++
	ct := st.Underlying().(*types.Struct).Field(0).Type().Underlying().(*types.Chan)
	s[0] = &ChanV{id: x.nextChan, cap: 1, et: ct.Elem(), ticker: true}
	p := new(Value)
	*p = s
	return p
}

func inAfterFunc(fr *frame, args []Value) Value {
	x := fr.x
	d := args[0].(*Term)
	x.res.Durations = append(x.res.Durations, d.String())
	x.lastAfterFunc = d
	f := args[1]
	if x.eng.cfg.RunTimers {
		x.newGoroutine("timer", func() { x.call(nil, f, nil) })
	}
	pt := fr.fn.Signature.Results().At(0).Type()
	p := new(Value)
	*p = x.zero(deref(pt))
	return p
}

func inSleep(fr *frame, args []Value) Value {
	x := fr.x
	x.res.Durations = append(x.res.Durations, "sleep:"+args[0].(*Term).String())
	return nil
}

// ---------- lazily initialised foreign globals ----------

// lazyGlobalInit gives package-level error variables of packages whose init
// is not executed a distinct opaque error object.
func (x *Exec) lazyGlobalInit(g *ssa.Global, p *Value) {
	if g.Pkg != nil && x.eng.initPkgs[g.Pkg.Pkg.Path()] {
		return // initialised by the package's init
	}
	t := deref(g.Type())
	if types.Identical(t, types.Universe.Lookup("error").Type()) {
		name := g.Pkg.Pkg.Path() + "." + g.Name()
		if e, ok := x.errGlobals[name]; ok {
			*p = e
			return
		}
		et := x.namedType("errors", "errorString")
		q := new(Value)
		*q = Struct{x.strConst(name)}
		e := Iface{t: types.NewPointer(et), v: q}
		// context.DeadlineExceeded / os.ErrDeadlineExceeded need Timeout(): not modelled
		x.errGlobals[name] = e
		*p = e
	}
}

func describeArgs(args []Value) string {
	var parts []string
	for _, a := range args {
		parts = append(parts, describe(a))
	}
	return fmt.Sprintf("(%s)", strings.Join(parts, ", "))
}
