package main

// The harness API: functions named verif* in the packages under test are
// intercepted here. Their Go bodies (used for native replay) are ignored.

import (
	"fmt"
	"go/types"
	"regexp"
	"strings"

	"golang.org/x/tools/go/ssa"
)

var verifAPI map[string]intrinsic

func init() {
	verifAPI = map[string]intrinsic{
		"verifU8":   func(fr *frame, a []Value) Value { return fr.x.nondet(a[0], 8, "u8") },
		"verifU16":  func(fr *frame, a []Value) Value { return fr.x.nondet(a[0], 16, "u16") },
		"verifU32":  func(fr *frame, a []Value) Value { return fr.x.nondet(a[0], 32, "u32") },
		"verifU64":  func(fr *frame, a []Value) Value { return fr.x.nondet(a[0], 64, "u64") },
		"verifInt":  func(fr *frame, a []Value) Value { return fr.x.nondet(a[0], 64, "int") },
		// a []byte of (possibly symbolic) length n whose content is never touched
		"verifVirtualBytes": func(fr *frame, a []Value) Value {
			return Slice{virt: fr.x.to64(a[0].(*Term), true)}
		},
		"verifBool": func(fr *frame, a []Value) Value { return fr.x.nondet(a[0], 0, "bool") },
		"verifChoose": func(fr *frame, a []Value) Value {
			x := fr.x
			tag := x.tagOf(a[0])
			n := x.concreteInt(a[1])
			if x.looseOn {
				k := 0
				if n > 0 {
					k = int(x.looseNext() % uint64(n))
				}
				x.nondets = append(x.nondets, NondetRec{Tag: tag, Kind: "choice", Val: uint64(k)})
				return x.tc.Const(64, uint64(k))
			}
			k := x.choose(n, tag)
			x.nondets = append(x.nondets, NondetRec{Tag: tag, Kind: "choice", Val: uint64(k)})
			return x.tc.Const(64, uint64(k))
		},
		"verifIte": func(fr *frame, a []Value) Value {
			return fr.x.tc.Ite(a[0].(*Term), a[1].(*Term), a[2].(*Term))
		},
		"verifB2I": func(fr *frame, a []Value) Value {
			tc := fr.x.tc
			return tc.Ite(a[0].(*Term), tc.Const(64, 1), tc.Const(64, 0))
		},
		"verifParam": func(fr *frame, a []Value) Value {
			x := fr.x
			name := x.tagOf(a[0])
			if v, ok := x.eng.params[name]; ok {
				return x.tc.Const(64, uint64(int64(v)))
			}
			return a[1]
		},
		"verifAssume": func(fr *frame, a []Value) Value {
			x := fr.x
			c := a[0].(*Term)
			if c.IsTrue() {
				return nil
			}
			if c.IsFalse() {
				x.end("infeasible", "assume(false)")
			}
			r, _ := x.check(c, x.eng.cfg.FeasTimeoutMs, nil)
			if r == Unsat {
				x.end("infeasible", "assumption unsatisfiable")
			}
			x.assertPC(c)
			return nil
		},
		"verifAssert": func(fr *frame, a []Value) Value {
			x := fr.x
			c := a[0].(*Term)
			msg := x.tagOf(a[1])
			x.assertion(c, msg)
			return nil
		},
		"verifFail": func(fr *frame, a []Value) Value {
			x := fr.x
			x.assertion(x.tc.Bool(false), x.tagOf(a[0]))
			return nil
		},
		"verifReach": func(fr *frame, a []Value) Value {
			fr.x.res.Reach[fr.x.tagOf(a[0])]++
			return nil
		},
		"verifUnwind": func(fr *frame, a []Value) Value {
			fr.x.unwind = fr.x.concreteInt(a[0])
			return nil
		},
		"verifOnUnwind": func(fr *frame, a []Value) Value {
			fr.x.onUnwind = fr.x.concreteInt(a[0])
			return nil
		},
		"verifWedgeAtUnwind": func(fr *frame, a []Value) Value {
			fr.x.onUnwind = 2
			fr.x.wedgeMsg = fr.x.tagOf(a[0])
			return nil
		},
		"verifPreempt": func(fr *frame, a []Value) Value {
			fr.x.preempt = fr.x.concreteInt(a[0])
			return nil
		},
		"verifConcrete": func(fr *frame, a []Value) Value {
			t := a[0].(*Term)
			v := fr.x.concretize(t)
			return fr.x.tc.Const(t.W, v)
		},
		"verifExpectDeadlock": func(fr *frame, a []Value) Value {
			fr.x.expectDeadlock = true
			return nil
		},
		"verifLastTimer": func(fr *frame, a []Value) Value {
			if fr.x.lastAfterFunc == nil {
				return fr.x.tc.Const(64, ^uint64(0))
			}
			_ = a
			return fr.x.lastAfterFunc
		},
		"verifSymbolic": func(fr *frame, a []Value) Value {
			return fr.x.tc.Bool(true)
		},
		"verifNote": func(fr *frame, a []Value) Value {
			if fr.x.eng.cfg.Debug {
				fmt.Printf("NOTE %s\n", describeArgs(a))
			}
			return nil
		},
		// verifYield: explicit scheduling point
		"verifYield": func(fr *frame, a []Value) Value {
			x := fr.x
			x.block("yield", func() bool { return true })
			return nil
		},
		"verifYieldTag": func(fr *frame, a []Value) Value {
			x := fr.x
			tag, ok := strConcrete(a[0].(StrV))
			if !ok {
				tag = "?"
			}
			x.block("yield", func() bool { return true })
			x.yieldOrder = append(x.yieldOrder, tag)
			return nil
		},
		// verifQuiesce: wait until every other goroutine is finished or blocked
		"verifQuiesce": func(fr *frame, a []Value) Value {
			x := fr.x
			me := x.cur
			idle := func() bool {
				for _, g := range x.goroutines {
					if g != me && !g.done && (g.ready == nil || g.waitDesc != "quiesce" && g.waitDesc != "tick" && g.ready()) {
						return false
					}
				}
				return true
			}
			for round := 0; round < 4; round++ {
				x.block("quiesce", idle)
				// goroutines polling on a ticker get one more turn each: time passes
				n := 0
				for _, g := range x.goroutines {
					if g != me && !g.done && g.waitDesc == "tick" {
						g.waitDesc = "tick-turn"
						n++
					}
				}
				if n == 0 {
					break
				}
			}
			x.block("quiesce", idle)
			return nil
		},
		// verifGoroutines: number of live goroutines other than the caller
		"verifLiveGoroutines": func(fr *frame, a []Value) Value {
			x := fr.x
			n := 0
			for _, g := range x.goroutines {
				if !g.done && g != x.cur {
					n++
				}
			}
			return x.tc.Const(64, uint64(n))
		},
		// verifNeverChan returns a channel on which nothing ever happens
		// (an open quit channel, a timer that does not fire in scope).
		"verifTickerChan": func(fr *frame, a []Value) Value {
			x := fr.x
			x.nextChan++
			return &ChanV{id: x.nextChan, cap: 1, ticker: true, et: types.NewStruct(nil, nil)}
		},
	}
}

var tagRe = regexp.MustCompile(`[^A-Za-z0-9_]`)

func (x *Exec) tagOf(v Value) string {
	s, ok := strConcrete(v.(StrV))
	if !ok {
		x.unsupported("verif API tag must be a constant string")
	}
	return s
}

func (x *Exec) nondet(tagV Value, w int, kind string) Value {
	tag := x.tagOf(tagV)
	if x.looseOn {
		val := x.looseNext()
		x.nondets = append(x.nondets, NondetRec{Tag: tag, Kind: kind, Val: val})
		if w == 0 {
			return x.tc.Bool(val&1 != 0)
		}
		return x.tc.Const(w, val)
	}
	if x.eng.fixed != nil {
		// concrete re-execution of a counterexample
		i := len(x.nondets)
		var val uint64
		if i < len(x.eng.fixed) {
			val = x.eng.fixed[i].Val
		}
		var c *Term
		if w == 0 {
			c = x.tc.Bool(val != 0)
		} else {
			c = x.tc.Const(w, val)
		}
		x.nondets = append(x.nondets, NondetRec{Tag: tag, Kind: kind, Val: val})
		return c
	}
	k := x.nondetSeq[tag]
	x.nondetSeq[tag] = k + 1
	name := fmt.Sprintf("nd_%s_%d", tagRe.ReplaceAllString(tag, "_"), k)
	v := x.tc.Var(name, w)
	x.nondets = append(x.nondets, NondetRec{Tag: tag, Var: v, Kind: kind})
	return v
}

func (x *Exec) assertion(c *Term, msg string) {
	if c.IsTrue() {
		x.res.Asserts++
		x.res.AssertsTrivial++
		return
	}
	if v, ok := x.known[c]; ok && v {
		x.res.Asserts++
		return
	}
	neg := x.tc.BNot(c)
	r, m := x.check(neg, x.eng.cfg.AssertTimeoutMs, x.modelVars())
	if r != Unknown {
		x.crossCheck(neg, r, msg)
	}
	switch r {
	case Unsat:
		x.res.Asserts++
		x.assertPC(c)
	case Sat:
		v := Violation{Kind: "assert", Msg: msg, Harness: x.eng.harnessName, Model: x.buildModel(m), Trace: append([]Dec{}, x.trace...), Where: x.where(), Yields: append([]string{}, x.yieldOrder...)}
		x.res.Violations = append(x.res.Violations, v)
		if x.eng.knownLabels[msg] {
			// listed finding: keep exploring the inputs on which the assertion holds
			if r2, _ := x.check(c, x.eng.cfg.FeasTimeoutMs, nil); r2 == Unsat {
				x.end("violation", msg)
			}
			x.assertPC(c)
			return
		}
		x.end("violation", msg)
	default:
		x.res.Unknowns = append(x.res.Unknowns, "assertion query unknown: "+msg)
		x.end("inconclusive", "assertion query unknown/timeout: "+msg)
	}
}

func redirectKey(fn *ssa.Function) string {
	s := fn.String()
	s = strings.NewReplacer("(*", "", "(", "", ")", "", ".", "_", "/", "_").Replace(s)
	return "verifModel_" + s
}

// crossCheck re-decides PC ∧ neg on the other installed solvers; a
// disagreement makes the run inconclusive.
func (x *Exec) crossCheck(neg *Term, primary SatResult, msg string) {
	v, ok := x.eng.crossTL.Load(x.solver)
	if !ok {
		return
	}
	for _, cs := range v.([]*Solver) {
		cs.Reset()
		for _, t := range x.pcTerms {
			cs.Assert(t)
		}
		r, _, err := cs.Check(neg, x.eng.cfg.AssertTimeoutMs, nil)
		if err != nil || r == Unknown {
			x.res.CrossUnknown++
			continue
		}
		x.res.CrossChecked++
		if r != primary {
			x.res.Unknowns = append(x.res.Unknowns, fmt.Sprintf("solver disagreement on %q: %s says %s, %s says %s", msg, x.solver.name, primary, cs.name, r))
			x.end("inconclusive", "solver disagreement: "+msg)
		}
	}
}
