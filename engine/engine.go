package main

// Engine: loads /repo with the harness overlay, builds SSA, and explores all
// paths of one harness function with a pool of workers.

import (
	"fmt"
	"go/types"
	"os"
	"path/filepath"
	"sort"
	"strconv"
	"strings"
	"sync"
	"time"

	"golang.org/x/tools/go/packages"
	"golang.org/x/tools/go/ssa"
	"golang.org/x/tools/go/ssa/ssautil"
)

type Config struct {
	RepoDir         string
	HarnessDir      string
	Workers         int
	FeasTimeoutMs   int
	AssertTimeoutMs int
	Unwind          int
	InstrBudget     int
	MaxPaths        int
	MaxAlloc        int
	MaxSymIndex     int
	MapOrderFork    bool
	PoolDirty       bool
	PoolReuse       bool
	RunTimers       bool
	Debug           bool
	Solver          string
	MaxViolations   int
	TimeBudget      time.Duration
	SolverLog       string
	CrossCheck      bool // re-decide every solver-discharged assertion on z3 4.8.12 and cvc5
}

// repoRoot is /repo; VERIF_REPO redirects development-time experiments
// (seeded changes in a scratch worktree) without touching /repo.
func repoRoot() string {
	if d := os.Getenv("VERIF_REPO"); d != "" {
		return d
	}
	return "/repo"
}

func DefaultConfig() Config {
	return Config{
		RepoDir: repoRoot(), HarnessDir: filepath.Join(verifRoot(), "harness"), Workers: workersFromEnv(),
		FeasTimeoutMs: 2000, AssertTimeoutMs: 60000, Unwind: 64, InstrBudget: 30000000,
		MaxPaths: 200000, MaxAlloc: 1 << 18, MaxSymIndex: 256, MapOrderFork: true,
		Solver: "z3-new", MaxViolations: 1, TimeBudget: 10 * time.Minute,
	}
}

type Program struct {
	prog     *ssa.Program
	pkgs     []*ssa.Package
	mqtt     *ssa.Package
	mqtttest *ssa.Package
	loadSecs float64
}

// Packages whose functions are executed from SSA.
var execPkgs = map[string]bool{
	"github.com/pascaldekloe/mqtt":          true,
	"github.com/pascaldekloe/mqtt/mqtttest": true,
	"bufio":                                 true,
	"errors":                                true,
	"io":                                    true,
	"hash/fnv":                              true,
	"encoding/binary":                       true,
	"unicode/utf8":                          true,
	"bytes":                                 true,
	"strconv":                               true,
	"sync/atomic":                           true,
	"math/bits":                             true,
	"internal/byteorder":                    true,
	"slices":                                true,
	"maps":                                  true,
	"cmp":                                   true,
	"strings":                               true,
	"unicode":                               true,
	"iter":                                  true,
	"sort":                                  true,
	"math":                                  true,
	"container/list":                        true,
	"unicode/utf16":                         true,
	"internal/stringslite":                  true,
	"internal/bytealg":                      false,
}

// Individual functions of other packages executed from SSA.
var execFuncs = map[string]bool{
	"(*net.Buffers).WriteTo":   true,
	"(*net.Buffers).consume":   true,
	"(*fmt.wrapError).Unwrap":  true,
	"(*fmt.wrapErrors).Unwrap": true,
	"(*fmt.wrapError).Error":   true,
	"(*fmt.wrapErrors).Error":  true,
	"(time.Duration).Seconds":  false,
}

// Packages whose init function is executed (lazily, once per path).
var initPkgs = map[string]bool{
	"github.com/pascaldekloe/mqtt":          true,
	"github.com/pascaldekloe/mqtt/mqtttest": true,
	"bufio":                                 true,
	"io":                                    true,
	"unicode/utf8":                          true,
	"strconv":                               true,
	"hash/fnv":                              true,
}

func LoadProgram(cfg Config) (*Program, error) {
	start := time.Now()
	overlay := map[string][]byte{}
	addOverlay := func(srcDir, dstDir string) error {
		ents, err := os.ReadDir(srcDir)
		if err != nil {
			return nil
		}
		for _, e := range ents {
			if e.IsDir() || !strings.HasSuffix(e.Name(), ".go") || strings.HasSuffix(e.Name(), "_test.go") {
				continue
			}
			if !strings.HasPrefix(e.Name(), "zz_verif_") {
				continue
			}
			b, err := os.ReadFile(filepath.Join(srcDir, e.Name()))
			if err != nil {
				return err
			}
			overlay[filepath.Join(dstDir, e.Name())] = b
		}
		return nil
	}
	if err := addOverlay(cfg.HarnessDir, cfg.RepoDir); err != nil {
		return nil, err
	}
	if err := addOverlay(filepath.Join(cfg.HarnessDir, "mqtttest"), filepath.Join(cfg.RepoDir, "mqtttest")); err != nil {
		return nil, err
	}
	// the harness API is shared: a copy under the other package name
	if api, err := os.ReadFile(filepath.Join(cfg.HarnessDir, "zz_verif_api.go")); err == nil {
		overlay[filepath.Join(cfg.RepoDir, "mqtttest", "zz_verif_api.go")] = []byte(strings.Replace(string(api), "\npackage mqtt\n", "\npackage mqtttest\n", 1))
	}
	pcfg := &packages.Config{
		Mode:       packages.LoadAllSyntax,
		Dir:        cfg.RepoDir,
		Overlay:    overlay,
		BuildFlags: []string{"-tags=verif"},
		Env:        append(os.Environ(), "GOFLAGS=-mod=mod", "GOPROXY=off", "GOSUMDB=off", "GOTOOLCHAIN=local"),
	}
	initial, err := packages.Load(pcfg, ".", "./mqtttest")
	if err != nil {
		return nil, err
	}
	var errs []string
	packages.Visit(initial, nil, func(p *packages.Package) {
		for _, e := range p.Errors {
			errs = append(errs, e.Error())
		}
	})
	if len(errs) > 0 {
		return nil, fmt.Errorf("load errors (harness no longer compiles against /repo?):\n%s", strings.Join(errs, "\n"))
	}
	prog, pkgs := ssautil.AllPackages(initial, ssa.InstantiateGenerics)
	prog.Build()
	p := &Program{prog: prog, pkgs: pkgs}
	for _, sp := range pkgs {
		if sp == nil {
			continue
		}
		switch sp.Pkg.Path() {
		case "github.com/pascaldekloe/mqtt":
			p.mqtt = sp
		case "github.com/pascaldekloe/mqtt/mqtttest":
			p.mqtttest = sp
		}
	}
	if p.mqtt == nil {
		return nil, fmt.Errorf("package mqtt not found in %s", cfg.RepoDir)
	}
	p.loadSecs = time.Since(start).Seconds()
	return p, nil
}

type Engine struct {
	cfg         Config
	prog        *ssa.Program
	P           *Program
	harness     *ssa.Function
	harnessName string
	initPkgs    map[string]bool
	redirects   map[string]*ssa.Function
	params      map[string]int
	knownLabels map[string]bool
	fixed       []NondetVal // concrete re-execution: nondet values in order
	loose       []uint64    // translator validation stream
	crossTL     sync.Map    // primary solver -> cross-check solvers of that worker
}

func (e *Engine) allowed(fn *ssa.Function) bool {
	if fn.Pkg == nil {
		// synthetic wrappers, bound methods, instantiations
		if o := fn.Origin(); o != nil && o.Pkg != nil {
			return execPkgs[o.Pkg.Pkg.Path()] || execFuncs[o.String()]
		}
		if fn.Synthetic != "" {
			return true
		}
		return false
	}
	if execPkgs[fn.Pkg.Pkg.Path()] {
		return true
	}
	if p := fn.Parent(); p != nil {
		return e.allowed(p)
	}
	return execFuncs[fn.String()]
}

func NewEngine(cfg Config, P *Program, harness string) (*Engine, error) {
	e := &Engine{cfg: cfg, prog: P.prog, P: P, harnessName: harness, initPkgs: initPkgs, redirects: map[string]*ssa.Function{}}
	for _, sp := range []*ssa.Package{P.mqtt, P.mqtttest} {
		if sp == nil {
			continue
		}
		if f := sp.Func(harness); f != nil {
			e.harness = f
		}
		for name, m := range sp.Members {
			if f, ok := m.(*ssa.Function); ok && strings.HasPrefix(name, "verifModel_") {
				e.redirects[name] = f
			}
		}
	}
	if e.harness == nil {
		return nil, fmt.Errorf("harness %s not found", harness)
	}
	return e, nil
}

// HarnessResult aggregates all paths of one harness.
type HarnessResult struct {
	Harness        string
	Paths          int
	Completed      int
	Infeasible     int
	Violations     []Violation
	Inconclusive   []string
	Unsupported    []string
	UnwindFails    []string
	Reach          map[string]int
	Asserts        int
	AssertsTrivial int
	Instrs         int
	FuncsHit       map[string]int
	StubsHit       map[string]int
	Assumes        map[string]int
	SolverCalls    int
	SolverSecs     float64
	MaxLoop        int
	Samples        []string
	WallSecs       float64
	Forks          int
	Durations      map[string]int
	Truncated      bool
	CrossChecked   int
	CrossUnknown   int
}

func (e *Engine) Explore() *HarnessResult {
	start := time.Now()
	hr := &HarnessResult{Harness: e.harnessName, Reach: map[string]int{}, FuncsHit: map[string]int{}, StubsHit: map[string]int{}, Assumes: map[string]int{}, Durations: map[string]int{}}
	var mu sync.Mutex
	cond := sync.NewCond(&mu)
	work := [][]Dec{nil}
	active := 0
	stop := false
	deadline := start.Add(e.cfg.TimeBudget)

	worker := func(id int) {
		solver, err := NewSolver(e.cfg.Solver)
		if err != nil {
			mu.Lock()
			hr.Inconclusive = append(hr.Inconclusive, "solver start: "+err.Error())
			stop = true
			cond.Broadcast()
			mu.Unlock()
			return
		}
		if e.cfg.SolverLog != "" && id == 0 {
			f, _ := os.Create(e.cfg.SolverLog)
			solver.log = f
		}
		defer solver.Close()
		var cross []*Solver
		if e.cfg.CrossCheck {
			for _, name := range []string{"z3", "cvc5"} {
				if cs, err := NewSolver(name); err == nil {
					cross = append(cross, cs)
					defer cs.Close()
				}
			}
		}
		for {
			mu.Lock()
			for len(work) == 0 && active > 0 && !stop {
				cond.Wait()
			}
			if stop || len(work) == 0 {
				mu.Unlock()
				cond.Broadcast()
				return
			}
			prefix := work[len(work)-1]
			work = work[:len(work)-1]
			active++
			mu.Unlock()

			e.crossTL.Store(solver, cross)
			res := e.runPath(solver, prefix)

			mu.Lock()
			active--
			hr.Paths++
			switch res.End.kind {
			case "done":
				hr.Completed++
				if len(hr.Samples) < 3 && res.Sample != "" {
					hr.Samples = append(hr.Samples, res.Sample)
				}
			case "infeasible":
				hr.Infeasible++
			case "violation":
			case "unsupported":
				if len(hr.Unsupported) < 5 {
					hr.Unsupported = append(hr.Unsupported, res.End.msg)
				}
			case "unwind":
				if len(hr.UnwindFails) < 5 {
					hr.UnwindFails = append(hr.UnwindFails, res.End.msg)
				}
			default:
				if len(hr.Inconclusive) < 5 {
					hr.Inconclusive = append(hr.Inconclusive, res.End.kind+": "+res.End.msg)
				}
			}
			if res.End.kind != "violation" && res.End.kind != "infeasible" && res.End.kind != "unsupported" && res.End.kind != "unwind" {
				for _, u := range res.Unknowns {
					if len(hr.Inconclusive) < 5 {
						hr.Inconclusive = append(hr.Inconclusive, "solver: "+u)
					}
				}
			}
			hr.Violations = append(hr.Violations, res.Violations...)
			for k, v := range res.Reach {
				hr.Reach[k] += v
			}
			for k, v := range res.FuncsHit {
				hr.FuncsHit[k] += v
			}
			for k, v := range res.StubsHit {
				hr.StubsHit[k] += v
			}
			for k, v := range res.Assumes {
				hr.Assumes[k] += v
			}
			for _, d := range res.Durations {
				hr.Durations[d]++
			}
			hr.Asserts += res.Asserts
			hr.CrossChecked += res.CrossChecked
			hr.CrossUnknown += res.CrossUnknown
			hr.AssertsTrivial += res.AssertsTrivial
			hr.Instrs += res.Instrs
			hr.SolverCalls += res.SolverCalls
			hr.SolverSecs += res.SolverSecs
			if res.MaxLoop > hr.MaxLoop {
				hr.MaxLoop = res.MaxLoop
			}
			hr.Forks += len(res.Forks)
			work = append(work, res.Forks...)
			if len(hr.Violations) >= e.cfg.MaxViolations || hr.Paths >= e.cfg.MaxPaths || time.Now().After(deadline) ||
				len(hr.Unsupported) > 0 {
				if (hr.Paths >= e.cfg.MaxPaths || time.Now().After(deadline)) && (len(work) > 0 || active > 0) {
					hr.Truncated = true
				}
				stop = true
			}
			cond.Broadcast()
			mu.Unlock()
		}
	}
	var wg sync.WaitGroup
	for i := 0; i < e.cfg.Workers; i++ {
		wg.Add(1)
		go func(id int) { defer wg.Done(); worker(id) }(i)
	}
	wg.Wait()
	hr.WallSecs = time.Since(start).Seconds()
	return hr
}

func (e *Engine) runPath(solver *Solver, prefix []Dec) (res PathResult) {
	solver.Reset()
	c0, s0 := solver.Calls, solver.Seconds
	x := &Exec{
		eng: e, tc: NewTermCtx(), solver: solver, prefix: prefix,
		globals: map[*ssa.Global]*Value{}, sched: make(chan *Goroutine),
		nondetSeq: map[string]int{}, unwind: e.cfg.Unwind, instrBudget: e.cfg.InstrBudget,
		mutexes: map[*Value]*mutexState{}, errGlobals: map[string]Iface{}, onceDone: map[*Value]bool{},
		poolStash: map[*Value][]Value{}, initDone: map[*ssa.Package]bool{},
	}
	if e.loose != nil {
		x.loose, x.looseOn = e.loose, true
	}
	x.res.Reach = map[string]int{}
	x.res.FuncsHit = map[string]int{}
	x.res.StubsHit = map[string]int{}
	x.res.Assumes = map[string]int{}
	main := x.newGoroutine("main", func() {
		x.ensureInit(e.harness.Pkg)
		x.call(nil, e.harness, nil)
	})
	x.runScheduler(main)
	if x.ended != nil {
		x.res.End = *x.ended
	} else {
		x.res.End = pathEnd{"done", ""}
	}
	x.res.Forks = x.forks
	x.res.Trace = x.trace
	x.res.SolverCalls = solver.Calls - c0
	x.res.SolverSecs = solver.Seconds - s0
	if x.res.End.kind == "done" {
		var parts []string
		for _, n := range x.nondets {
			if n.Var == nil {
				parts = append(parts, fmt.Sprintf("%s=%d", n.Tag, n.Val))
			}
		}
		pc := ""
		if len(x.pcTerms) > 0 {
			k := len(x.pcTerms)
			if k > 3 {
				k = 3
			}
			var ps []string
			for _, t := range x.pcTerms[len(x.pcTerms)-k:] {
				ps = append(ps, t.String())
			}
			pc = " pc[-" + fmt.Sprint(k) + ":]=" + strings.Join(ps, " ∧ ")
		}
		x.res.Sample = fmt.Sprintf("path(decisions=%d, nondets=%d) choices{%s}%s", len(x.trace), len(x.nondets), strings.Join(parts, ","), pc)
		if len(x.res.Sample) > 600 {
			x.res.Sample = x.res.Sample[:600] + "…"
		}
	}
	return x.res
}

// ensureInit runs the init function of a whitelisted package once per path.
func (x *Exec) ensureInit(p *ssa.Package) {
	if p == nil || x.initDone[p] || !x.eng.initPkgs[p.Pkg.Path()] {
		return
	}
	x.initDone[p] = true
	init := p.Func("init")
	if init == nil {
		return
	}
	saved := x.unwind
	x.unwind = 1 << 30
	x.callSSA(nil, init, nil, nil)
	x.unwind = saved
}

func sortedCounts(m map[string]int) []string {
	ks := make([]string, 0, len(m))
	for k := range m {
		ks = append(ks, k)
	}
	sort.Strings(ks)
	out := make([]string, len(ks))
	for i, k := range ks {
		out[i] = fmt.Sprintf("%s:%d", k, m[k])
	}
	return out
}

var _ = types.Typ

// workersFromEnv: 16 workers (one solver process each) unless VERIF_WORKERS says otherwise.
func workersFromEnv() int {
	if v := os.Getenv("VERIF_WORKERS"); v != "" {
		if n, err := strconv.Atoi(v); err == nil && n > 0 && n <= 64 {
			return n
		}
	}
	return 16
}
