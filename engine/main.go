package main

import (
	"encoding/json"
	"flag"
	"fmt"
	"os"
	"sort"
	"strings"
	"time"
)

func usage() {
	fmt.Fprintln(os.Stderr, `usage:
  gosx run   -harness NAME [options]        explore one harness, print a summary
  gosx check PROPERTY [--tier quick|thorough] [--replay DIR]
  gosx list                                  list harness functions found in /repo + overlay`)
	os.Exit(2)
}

func main() {
	if len(os.Args) < 2 {
		usage()
	}
	switch os.Args[1] {
	case "run":
		cmdRun(os.Args[2:])
	case "check":
		os.Exit(cmdCheck(os.Args[2:]))
	case "selftest":
		os.Exit(cmdSelftest(os.Args[2:]))
	case "list":
		cmdList()
	default:
		usage()
	}
}

func cmdList() {
	cfg := DefaultConfig()
	P, err := LoadProgram(cfg)
	if err != nil {
		fmt.Fprintln(os.Stderr, err)
		os.Exit(2)
	}
	for _, n := range harnessNames(P) {
		fmt.Println(n)
	}
}

func harnessNames(P *Program) []string {
	var names []string
	for _, sp := range []interface{ }{P.mqtt, P.mqtttest} {
		_ = sp
	}
	if P.mqtt != nil {
		for n := range P.mqtt.Members {
			if strings.HasPrefix(n, "verifH_") {
				names = append(names, n)
			}
		}
	}
	if P.mqtttest != nil {
		for n := range P.mqtttest.Members {
			if strings.HasPrefix(n, "verifH_") {
				names = append(names, n)
			}
		}
	}
	sort.Strings(names)
	return names
}

func cmdRun(args []string) {
	cfg := DefaultConfig()
	fs := flag.NewFlagSet("run", flag.ExitOnError)
	harness := fs.String("harness", "", "harness function name")
	params := fs.String("params", "", "k=v,k=v harness parameters")
	fs.IntVar(&cfg.Workers, "workers", cfg.Workers, "")
	fs.IntVar(&cfg.Unwind, "unwind", cfg.Unwind, "")
	fs.IntVar(&cfg.MaxPaths, "maxpaths", cfg.MaxPaths, "")
	fs.IntVar(&cfg.MaxViolations, "maxviol", cfg.MaxViolations, "")
	fs.BoolVar(&cfg.Debug, "debug", false, "")
	fs.BoolVar(&cfg.PoolDirty, "pooldirty", false, "")
	fs.BoolVar(&cfg.PoolReuse, "poolreuse", false, "")
	fs.BoolVar(&cfg.RunTimers, "timers", false, "")
	fs.StringVar(&cfg.Solver, "solver", cfg.Solver, "")
	fs.StringVar(&cfg.RepoDir, "repo", cfg.RepoDir, "")
	fs.StringVar(&cfg.SolverLog, "solverlog", "", "")
	fs.DurationVar(&cfg.TimeBudget, "time", cfg.TimeBudget, "")
	fs.IntVar(&cfg.AssertTimeoutMs, "asserttimeout", cfg.AssertTimeoutMs, "")
	fs.Parse(args)
	P, err := LoadProgram(cfg)
	if err != nil {
		fmt.Fprintln(os.Stderr, err)
		os.Exit(2)
	}
	e, err := NewEngine(cfg, P, *harness)
	if err != nil {
		fmt.Fprintln(os.Stderr, err)
		os.Exit(2)
	}
	e.params = parseParams(*params)
	hr := e.Explore()
	printSummary(hr, P.loadSecs)
	if len(hr.Violations) > 0 {
		os.Exit(1)
	}
	if !hr.Clean() {
		os.Exit(2)
	}
}

func parseParams(s string) map[string]int {
	m := map[string]int{}
	for _, kv := range strings.Split(s, ",") {
		if kv == "" {
			continue
		}
		var k string
		var v int
		parts := strings.SplitN(kv, "=", 2)
		k = parts[0]
		fmt.Sscan(parts[1], &v)
		m[k] = v
	}
	return m
}

func (hr *HarnessResult) Clean() bool {
	return len(hr.Inconclusive) == 0 && len(hr.Unsupported) == 0 && len(hr.UnwindFails) == 0 && !hr.Truncated
}

func printSummary(hr *HarnessResult, loadSecs float64) {
	fmt.Printf("harness %s: paths=%d completed=%d infeasible=%d violations=%d asserts=%d (trivial %d) instrs=%d solver=%d calls %.2fs wall=%.2fs load=%.2fs maxloop=%d\n",
		hr.Harness, hr.Paths, hr.Completed, hr.Infeasible, len(hr.Violations), hr.Asserts, hr.AssertsTrivial, hr.Instrs, hr.SolverCalls, hr.SolverSecs, hr.WallSecs, loadSecs, hr.MaxLoop)
	if len(hr.Reach) > 0 {
		fmt.Printf("  reach: %s\n", strings.Join(sortedCounts(hr.Reach), " "))
	}
	for _, u := range hr.Unsupported {
		fmt.Printf("  UNSUPPORTED: %s\n", u)
	}
	for _, u := range hr.UnwindFails {
		fmt.Printf("  UNWIND: %s\n", u)
	}
	for _, u := range hr.Inconclusive {
		fmt.Printf("  INCONCLUSIVE: %s\n", u)
	}
	if hr.Truncated {
		fmt.Printf("  TRUNCATED: path or time budget exhausted\n")
	}
	for _, v := range hr.Violations {
		b, _ := json.Marshal(v.Model)
		fmt.Printf("  VIOLATION[%s] %s\n    model=%s\n    where=%s\n", v.Kind, v.Msg, b, v.Where)
	}
	for _, s := range hr.Samples {
		fmt.Printf("  sample: %s\n", s)
	}
}

var _ = time.Now
