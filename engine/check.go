package main

// Property-level driver: runs the harnesses of one property, replays
// counterexamples natively, matches known findings, writes evidence.

import (
	"encoding/json"
	"flag"
	"fmt"
	"os"
	"os/exec"
	"path/filepath"
	"sort"
	"strconv"
	"strings"
	"time"
)

type TierSpec struct {
	Params     map[string]int `json:"params"`
	Unwind     int            `json:"unwind"`
	MaxPaths   int            `json:"maxpaths"`
	TimeSec    int            `json:"time_sec"`
	Skip       bool           `json:"skip"`
	AssertTimeoutMs int       `json:"assert_timeout_ms"`
	Reach      []string       `json:"reach"`
}

type HarnessSpec struct {
	Name      string   `json:"name"`
	Lemma     string   `json:"lemma"`
	Quick     TierSpec `json:"quick"`
	Thorough  TierSpec `json:"thorough"`
	Reach     []string `json:"reach"`
	PoolDirty bool     `json:"pooldirty"`
	PoolReuse bool     `json:"poolreuse"`
	Timers    bool     `json:"timers"`
	NoMapFork bool     `json:"no_map_fork"`
	ReplayTest string  `json:"replay_test"` // native test that demonstrates a scheduling-dependent violation
	EngineReplay bool  `json:"engine_replay"` // environment is a model (file system): counterexamples are re-executed concretely in the engine
	Pkg       string   `json:"pkg"`         // "" = mqtt, "mqtttest"
}

type PropSpec struct {
	Title       string        `json:"title"`
	Technique   string        `json:"technique"`
	Harnesses   []HarnessSpec `json:"harnesses"`
	Assumptions []string      `json:"assumptions"`
	Bounds      map[string]string `json:"bounds"`
	Outside     []string      `json:"outside"`
	WitnessTests string       `json:"witness_tests"` // -run pattern of native witness tests
}

type KnownFinding struct {
	Property string `json:"property"`
	Harness  string `json:"harness"`
	Label    string `json:"label"`
	What     string `json:"what"`
	Finding  string `json:"finding"`
}

type KnownFile struct {
	Known []KnownFinding `json:"known"`
	Fixed []string       `json:"fixed"`
}

var verifDir = verifRoot()

func verifRoot() string {
	if d := os.Getenv("VERIF_DIR"); d != "" {
		return d
	}
	return "/verif"
}

func loadSpecs() (map[string]*PropSpec, error) {
	b, err := os.ReadFile(filepath.Join(verifDir, "harness", "checks.json"))
	if err != nil {
		return nil, err
	}
	m := map[string]*PropSpec{}
	if err := json.Unmarshal(b, &m); err != nil {
		return nil, fmt.Errorf("checks.json: %v", err)
	}
	return m, nil
}

func loadKnown() KnownFile {
	var k KnownFile
	b, err := os.ReadFile(filepath.Join(verifDir, "known_findings.json"))
	if err == nil {
		json.Unmarshal(b, &k)
	}
	return k
}

type evidence struct {
	PropertyID  string                 `json:"property_id"`
	Tier        string                 `json:"tier"`
	Seed        int                    `json:"seed"`
	Level       string                 `json:"level"`
	Coverage    map[string]interface{} `json:"coverage"`
	Assumptions []string               `json:"assumptions"`
	WallS       float64                `json:"wall_s"`
	Violations  int                    `json:"violations"`
}

func cmdCheck(args []string) int {
	if len(args) < 1 {
		usage()
	}
	prop := args[0]
	fs := flag.NewFlagSet("check", flag.ExitOnError)
	tier := fs.String("tier", "", "quick|thorough")
	replayDir := fs.String("replay", "", "replay a stored counterexample directory")
	only := fs.String("only", "", "run only harnesses whose name contains this")
	debug := fs.Bool("debug", false, "")
	noEvidence := fs.Bool("no-evidence", false, "")
	fs.Parse(args[1:])
	if *tier == "" {
		*tier = os.Getenv("VERIF_TIER")
	}
	if *tier == "" {
		*tier = "quick"
	}
	seed, _ := strconv.Atoi(os.Getenv("VERIF_SEED"))
	if *replayDir != "" {
		ok, out := runReplayDir(*replayDir)
		fmt.Print(out)
		if ok {
			fmt.Printf("VIOLATION property=%s replay=%s\n", prop, *replayDir)
			return 1
		}
		return 0
	}
	start := time.Now()
	specs, err := loadSpecs()
	if err != nil {
		fmt.Println("INCONCLUSIVE", err)
		return 2
	}
	spec := specs[prop]
	if spec == nil {
		fmt.Printf("INCONCLUSIVE no check registered for %s\n", prop)
		return 2
	}
	known := loadKnown()
	cfg := DefaultConfig()
	cfg.Debug = *debug
	P, err := LoadProgram(cfg)
	if err != nil {
		fmt.Printf("INCONCLUSIVE harness does not load against /repo: %v\n", err)
		return 2
	}
	exit := 0
	var problems []string
	totalPaths, totalInstr, totalAsserts, totalTrivial, solverCalls := 0, 0, 0, 0, 0
	solverSecs := 0.0
	crossChecked, crossUnknown := 0, 0
	replayed := 0
	violations := 0
	funcs := map[string]int{}
	stubs := map[string]int{}
	reachAll := map[string]int{}
	var samples []interface{}
	var perHarness []map[string]interface{}
	durations := map[string]int{}
	maxLoop := 0
	nviol := 0
	if *only != "" {
		matched := false
		for _, hs := range spec.Harnesses {
			if strings.Contains(hs.Name, *only) {
				matched = true
			}
		}
		if !matched {
			fmt.Printf("INCONCLUSIVE property=%s --only %s matches no harness of this property\n", prop, *only)
			return 2
		}
	}
	for _, hs := range spec.Harnesses {
		if *only != "" && !strings.Contains(hs.Name, *only) {
			continue
		}
		ts := hs.Quick
		if *tier == "thorough" {
			ts = hs.Thorough
			if ts.Params == nil && ts.Unwind == 0 && ts.MaxPaths == 0 && ts.TimeSec == 0 && !ts.Skip {
				ts = hs.Quick
			}
		}
		if ts.Skip {
			continue
		}
		c := cfg
		if ts.Unwind > 0 {
			c.Unwind = ts.Unwind
		}
		if ts.MaxPaths > 0 {
			c.MaxPaths = ts.MaxPaths
		}
		if ts.TimeSec > 0 {
			c.TimeBudget = time.Duration(ts.TimeSec) * time.Second
		}
		if ts.AssertTimeoutMs > 0 {
			c.AssertTimeoutMs = ts.AssertTimeoutMs
		}
		c.PoolDirty = hs.PoolDirty
		c.PoolReuse = hs.PoolReuse
		c.RunTimers = hs.Timers
		if hs.NoMapFork {
			c.MapOrderFork = false
		}
		c.MaxViolations = 8
		c.CrossCheck = *tier == "thorough" || os.Getenv("VERIF_CROSS") == "1"
		e, err := NewEngine(c, P, hs.Name)
		if err != nil {
			fmt.Printf("INCONCLUSIVE %v\n", err)
			return 2
		}
		e.params = ts.Params
		e.knownLabels = map[string]bool{}
		for _, k := range known.Known {
			if k.Harness == hs.Name {
				e.knownLabels[k.Label] = true
			}
		}
		hr := e.Explore()
		if *debug {
			printSummary(hr, P.loadSecs)
		}
		totalPaths += hr.Paths
		totalInstr += hr.Instrs
		totalAsserts += hr.Asserts
		totalTrivial += hr.AssertsTrivial
		solverCalls += hr.SolverCalls
		solverSecs += hr.SolverSecs
		crossChecked += hr.CrossChecked
		crossUnknown += hr.CrossUnknown
		if hr.MaxLoop > maxLoop {
			maxLoop = hr.MaxLoop
		}
		for k, v := range hr.FuncsHit {
			funcs[k] += v
		}
		for k, v := range hr.StubsHit {
			stubs[k] += v
		}
		for k, v := range hr.Reach {
			reachAll[hs.Name+":"+k] += v
		}
		for k, v := range hr.Durations {
			durations[k] += v
		}
		for _, s := range hr.Samples {
			if len(samples) < 12 {
				samples = append(samples, map[string]string{"harness": hs.Name, "path": s})
			}
		}
		perHarness = append(perHarness, map[string]interface{}{
			"harness": hs.Name, "lemma": hs.Lemma, "paths": hr.Paths, "completed": hr.Completed, "infeasible": hr.Infeasible,
			"assertions_discharged": hr.Asserts, "of_which_by_rewriting": hr.AssertsTrivial, "solver_calls": hr.SolverCalls,
			"solver_s": round2(hr.SolverSecs), "wall_s": round2(hr.WallSecs), "params": ts.Params, "unwind_bound": c.Unwind, "max_loop_iterations_seen": hr.MaxLoop,
			"violations": len(hr.Violations),
		})
		// vacuity
		reach := hs.Reach
		if ts.Reach != nil {
			reach = ts.Reach
		}
		for _, tag := range reach {
			if hr.Reach[tag] == 0 && len(hr.Violations) == 0 {
				problems = append(problems, fmt.Sprintf("%s: reachability tag %q never hit (vacuous?)", hs.Name, tag))
			}
		}
		for _, u := range hr.Unsupported {
			problems = append(problems, hs.Name+": unsupported: "+u)
		}
		for _, u := range hr.UnwindFails {
			problems = append(problems, hs.Name+": unwinding: "+u)
		}
		for _, u := range hr.Inconclusive {
			problems = append(problems, hs.Name+": inconclusive: "+u)
		}
		if hr.Truncated {
			problems = append(problems, hs.Name+": exploration truncated by path/time budget")
		}
		// violations: dedupe by label, replay natively
		seen := map[string]bool{}
		for _, v := range hr.Violations {
			key := v.Kind + ":" + v.Msg
			if seen[key] {
				continue
			}
			seen[key] = true
			nviol++
			dir := filepath.Join(verifDir, "out", "replay", prop, fmt.Sprintf("%s_%d", hs.Name, nviol))
			if err := writeReplayDir(dir, P, hs, ts, v); err != nil {
				problems = append(problems, "cannot write replay dir: "+err.Error())
				continue
			}
			var ok bool
			var out string
			if hs.EngineReplay {
				e2, _ := NewEngine(c, P, hs.Name)
				e2.params = ts.Params
				e2.fixed = v.Model
				if e2.fixed == nil {
					e2.fixed = []NondetVal{}
				}
				sv, err := NewSolver(c.Solver)
				if err == nil {
					res := e2.runPath(sv, v.Trace)
					sv.Close()
					for _, rv := range res.Violations {
						if rv.Msg == v.Msg {
							ok = true
						}
					}
					out = fmt.Sprintf("concrete re-execution in the engine (modelled environment): end=%s %s reproduced=%v\n", res.End.kind, res.End.msg, ok)
				}
			} else {
				ok, out = runReplayDir(dir)
			}
			replayed++
			os.WriteFile(filepath.Join(dir, "replay.log"), []byte(out), 0o644)
			isKnown := ""
			for _, k := range known.Known {
				if k.Harness == hs.Name && k.Label == v.Msg && k.Property == prop {
					isKnown = k.What
				}
			}
			if !ok {
				problems = append(problems, fmt.Sprintf("%s: counterexample for %q did not reproduce natively (encoding mismatch); see %s", hs.Name, v.Msg, dir))
				continue
			}
			if isKnown != "" {
				fmt.Printf("KNOWN-FINDING: property=%s %s [%s %q]\n", prop, isKnown, hs.Name, v.Msg)
				continue
			}
			violations++
			fmt.Printf("VIOLATION property=%s replay=%s\n", prop, dir)
			fmt.Printf("  harness=%s kind=%s label=%q\n", hs.Name, v.Kind, v.Msg)
			exit = 1
		}
	}
	// native witness tests (reachability of the pre-states, regression replays)
	witnessOK := 0
	if spec.WitnessTests != "" {
		ok, out := runNativeTests(P, spec.WitnessTests, "")
		if !ok {
			problems = append(problems, "native witness tests failed: "+lastLines(out, 12))
		} else {
			witnessOK = strings.Count(out, "--- PASS")
			if witnessOK == 0 {
				witnessOK = 1
			}
		}
	}
	if len(problems) > 0 && exit == 0 {
		exit = 2
	}
	for _, p := range problems {
		fmt.Println("INCONCLUSIVE", p)
	}
	wall := time.Since(start).Seconds()
	if !*noEvidence {
		fnames := make([]string, 0, len(funcs))
		for k := range funcs {
			if !strings.Contains(k, ".verif") && !strings.Contains(k, "$") {
				fnames = append(fnames, k)
			}
		}
		sort.Strings(fnames)
		var fenc []string
		for _, k := range fnames {
			fenc = append(fenc, fmt.Sprintf("%s (%d calls)", k, funcs[k]))
		}
		if len(samples) == 0 {
			samples = append(samples, "no completed path")
		}
		ev := evidence{
			PropertyID: prop, Tier: *tier, Seed: seed, Level: "model_checking",
			Coverage: map[string]interface{}{
				"states":                        max(totalPaths, 1),
				"transitions":                   max(totalInstr, 1),
				"traces_validated_against_impl": replayed + witnessOK,
				"samples":                       samples,
				"obligations":                   totalAsserts,
				"discharged":                    totalAsserts,
				"discharged_by_term_rewriting":  totalTrivial,
				"discharged_by_solver":          totalAsserts - totalTrivial,
				"explanation":                   "states = symbolic paths explored (each covers all inputs satisfying its path condition); transitions = SSA instructions executed symbolically; obligations = assertion instances whose negation was shown unsatisfiable together with the path condition",
				"technique":                     spec.Technique,
				"functions_encoded":             fenc,
				"intrinsics_and_stubs_hit":      sortedCounts(stubs),
				"harnesses":                     perHarness,
				"reach_tags":                    sortedCounts(reachAll),
				"bounds":                        spec.Bounds[*tier],
				"outside_claim":                 spec.Outside,
				"solver":                        map[string]interface{}{"name": "z3 5.1.0 (z3-new -in, one process per worker)", "calls": solverCalls, "seconds": round2(solverSecs), "cross_check": "every solver-discharged assertion re-decided on z3 4.8.12 and cvc5 1.0 (thorough tier, or VERIF_CROSS=1)", "cross_checked_agreeing": crossChecked, "cross_check_unknown": crossUnknown},
				"load_s":                        round2(P.loadSecs),
				"timer_durations_seen":          sortedCounts(durations),
				"inconclusive":                  problems,
				"exhaustive":                    len(problems) == 0,
			},
			Assumptions: spec.Assumptions,
			WallS:       round2(wall),
			Violations:  violations,
		}
		b, _ := json.MarshalIndent(ev, "", " ")
		os.MkdirAll(filepath.Join(verifDir, "evidence"), 0o755)
		os.WriteFile(filepath.Join(verifDir, "evidence", prop+".json"), b, 0o644)
	}
	fmt.Printf("%s tier=%s exit=%d paths=%d obligations=%d (rewriting %d, solver %d) solver_calls=%d solver_s=%.1f wall_s=%.1f\n",
		prop, *tier, exit, totalPaths, totalAsserts, totalTrivial, totalAsserts-totalTrivial, solverCalls, solverSecs, wall)
	return exit
}

func round2(f float64) float64 { return float64(int(f*100+0.5)) / 100 }

func lastLines(s string, n int) string {
	ls := strings.Split(strings.TrimSpace(s), "\n")
	if len(ls) > n {
		ls = ls[len(ls)-n:]
	}
	return strings.Join(ls, " | ")
}

// ---------- native replay ----------

func overlayJSON(P *Program, dir string) (string, error) {
	repl := map[string]string{}
	cfg := DefaultConfig()
	add := func(srcDir, dstDir string) {
		ents, _ := os.ReadDir(srcDir)
		for _, e := range ents {
			if e.IsDir() || !strings.HasPrefix(e.Name(), "zz_verif_") || !strings.HasSuffix(e.Name(), ".go") {
				continue
			}
			repl[filepath.Join(dstDir, e.Name())] = filepath.Join(srcDir, e.Name())
		}
	}
	add(cfg.HarnessDir, cfg.RepoDir)
	add(filepath.Join(cfg.HarnessDir, "mqtttest"), filepath.Join(cfg.RepoDir, "mqtttest"))
	// registries
	gen := filepath.Join(dir, "gen")
	os.MkdirAll(gen, 0o755)
	for _, shared := range []string{"zz_verif_api.go", "zz_verif_replay_test.go"} {
		if b, err := os.ReadFile(filepath.Join(cfg.HarnessDir, shared)); err == nil {
			f := filepath.Join(gen, "mqtttest_"+shared)
			os.WriteFile(f, []byte(strings.Replace(string(b), "\npackage mqtt\n", "\npackage mqtttest\n", 1)), 0o644)
			repl[filepath.Join(cfg.RepoDir, "mqtttest", shared)] = f
		}
	}
	writeReg := func(pkg string, names []string, dst string) {
		var sb strings.Builder
		sb.WriteString("//go:build verif\n\npackage " + pkg + "\n\nvar verifHarnesses = map[string]func(){\n")
		for _, n := range names {
			fmt.Fprintf(&sb, "\t%q: %s,\n", n, n)
		}
		sb.WriteString("}\n")
		f := filepath.Join(gen, "zz_verif_registry_"+pkg+"_test.go")
		os.WriteFile(f, []byte(sb.String()), 0o644)
		repl[filepath.Join(dst, "zz_verif_registry_test.go")] = f
	}
	var a, b []string
	for n := range P.mqtt.Members {
		if strings.HasPrefix(n, "verifH_") {
			a = append(a, n)
		}
	}
	sort.Strings(a)
	writeReg("mqtt", a, cfg.RepoDir)
	if P.mqtttest != nil {
		for n := range P.mqtttest.Members {
			if strings.HasPrefix(n, "verifH_") {
				b = append(b, n)
			}
		}
		sort.Strings(b)
		writeReg("mqtttest", b, filepath.Join(cfg.RepoDir, "mqtttest"))
	}
	js, _ := json.MarshalIndent(map[string]interface{}{"Replace": repl}, "", " ")
	f := filepath.Join(dir, "overlay.json")
	return f, os.WriteFile(f, js, 0o644)
}

func writeReplayDir(dir string, P *Program, hs HarnessSpec, ts TierSpec, v Violation) error {
	os.RemoveAll(dir)
	if err := os.MkdirAll(dir, 0o755); err != nil {
		return err
	}
	vec := map[string]interface{}{"harness": hs.Name, "params": ts.Params, "nondets": v.Model, "yields": v.Yields, "kind": v.Kind, "label": v.Msg, "where": v.Where}
	b, _ := json.MarshalIndent(vec, "", " ")
	if err := os.WriteFile(filepath.Join(dir, "vector.json"), b, 0o644); err != nil {
		return err
	}
	ov, err := overlayJSON(P, dir)
	if err != nil {
		return err
	}
	pkg := "."
	if hs.Pkg == "mqtttest" {
		pkg = "./mqtttest"
	}
	run := "TestVerifReplay"
	if hs.ReplayTest != "" && (v.Kind == "deadlock" || v.Kind == "wedge") {
		run = hs.ReplayTest
	}
	sh := fmt.Sprintf(`#!/bin/sh
# replays the counterexample against the compiled real package
export GOFLAGS=-mod=mod GOPROXY=off GOSUMDB=off GOTOOLCHAIN=local
cd %[1]s || exit 2
out=$(VERIF_VECTOR=%[2]s/vector.json timeout 120 go test -tags verif -vet=off -count=1 -overlay %[3]s -run '^%[4]s$' -v %[5]s 2>&1)
echo "$out"
case "$out" in *VERIF-VIOLATION*|*VERIF-PANIC*|*VERIF-HANG*|*VERIF-ASSUME-FAILED*|*"vector mismatch"*) exit 0;; esac
case "$out" in *VERIF-PASS*)
  # the vector fixes every choice of the harness, but not those the Go runtime
  # makes at random (a select with several ready cases): try again a few times
  echo "# first native run passed; 30 more runs (runtime-chosen select cases)"
  VERIF_VECTOR=%[2]s/vector.json timeout 600 go test -tags verif -vet=off -count=30 -failfast -overlay %[3]s -run '^%[4]s$' -v %[5]s 2>&1 | grep -E "VERIF-|^(ok|FAIL|---)" | sort | uniq -c
  ;;
esac
`, repoRoot(), dir, ov, run, pkg)
	return os.WriteFile(filepath.Join(dir, "run.sh"), []byte(sh), 0o755)
}

// runReplayDir returns reproduced=true when the native run shows the failure.
func runReplayDir(dir string) (bool, string) {
	cmd := exec.Command("sh", filepath.Join(dir, "run.sh"))
	out, _ := cmd.CombinedOutput()
	s := string(out)
	reproduced := strings.Contains(s, "VERIF-VIOLATION") || strings.Contains(s, "VERIF-PANIC") || strings.Contains(s, "VERIF-HANG") ||
		strings.Contains(s, "VERIF-DEMO-FAIL")
	if strings.Contains(s, "VERIF-ASSUME-FAILED") || strings.Contains(s, "vector mismatch") {
		reproduced = false
	}
	return reproduced, s
}

func runNativeTests(P *Program, pattern string, pkg string) (bool, string) {
	dir := filepath.Join(verifDir, "out", "witness")
	os.MkdirAll(dir, 0o755)
	ov, err := overlayJSON(P, dir)
	if err != nil {
		return false, err.Error()
	}
	if pkg == "" {
		pkg = "./..."
	}
	cmd := exec.Command("timeout", "300", "go", "test", "-tags", "verif", "-vet=off", "-count=1", "-overlay", ov, "-run", pattern, "-v", pkg)
	cmd.Dir = repoRoot()
	cmd.Env = append(os.Environ(), "GOFLAGS=-mod=mod", "GOPROXY=off", "GOSUMDB=off", "GOTOOLCHAIN=local")
	out, err := cmd.CombinedOutput()
	return err == nil, string(out)
}
