package main

func cmdCheck(args []string) int { return 2 }
