//go:build verif

package mqtt

import "errors"

// L17.a: limit normalisation in newClient for every int value.
func verifH_C17_limits() {
	a := verifInt("atLeastOnceMax")
	b := verifInt("exactlyOnceMax")
	// the queue capacity is concretised by the engine: split the value space
	// into the classes the documentation names and keep the value free within
	cls := verifChoose("class", 5)
	switch cls {
	case 0:
		verifAssume(a < 0)
	case 1:
		verifAssume(a == 0)
	case 2:
		verifAssume(a > 0 && a <= 3)
	case 3:
		verifAssume(a == 16383 || a == 16384)
	case 4:
		verifAssume(a > 16384)
	}
	verifAssume(b == a)
	cfg := &Config{AtLeastOnceMax: a, ExactlyOnceMax: b}
	c := verifNewClient(&verifStore{}, cfg)
	want := a
	if a < 0 || a > 16384 {
		want = 16384
	}
	verifAssert(cap(c.atLeastOnce.queue) == want, "C17: at-least-once capacity is not the documented maximum")
	verifAssert(cap(c.exactlyOnce.queue) == want, "C17: exactly-once capacity is not the documented maximum")
	verifAssert(cap(c.atLeastOnce.queue) <= 16384, "C17: more in flight than the identifier ring holds")
	if a == 0 {
		_, err := c.PublishAtLeastOnce(nil, "t")
		verifAssert(errors.Is(err, ErrMax), "C17: a maximum of zero does not disable the level")
		_, err = c.PublishExactlyOnce(nil, "t")
		verifAssert(errors.Is(err, ErrMax), "C17: a maximum of zero does not disable the level")
		verifReach("zero")
	}
	verifReach("end")
}

// L17.b arithmetic: the stamped identifier differs from every in-flight one
// whenever fewer than 0x4000 are in flight (pure bit-vector fact, all wraps).
func verifH_C17_ring() {
	n := uint(verifU64("acceptN"))
	a := uint(verifU64("acked"))
	i := uint(verifU64("i"))
	verifAssume(a <= i)
	verifAssume(i < n)
	verifAssume(n-a < 0x4000) // queue not full: len < cap <= 0x4000
	verifAssert(verifID1(n) != verifID1(i), "C17: identifier of the next publish collides with one in flight")
	verifAssert(verifID2(n) != verifID2(i), "C17: identifier of the next publish collides with one in flight")
	verifAssert(verifID1(n) != 0, "C17: zero identifier")
	verifAssert(verifID1(n)>>14 == 2, "C17: at-least-once identifier outside its range")
	verifAssert(verifID2(n)>>14 == 3, "C17: exactly-once identifier outside its range")
	verifReach("end")
}

// L17.d / L11.a: subscribe/unsubscribe slots.
func verifH_C17_slots() {
	c := verifNewClient(&verifStore{}, &Config{})
	txs := &c.unorderedTxs
	txs.n = uint(verifU64("n"))
	// up to 2 entries already registered at arbitrary identifiers of the right spaces
	pre := verifChoose("pre", 3)
	var keys []uint16
	for i := 0; i < pre; i++ {
		k := verifU16("key")
		sub := verifChoose("presub", 2) == 1
		if sub {
			k = k&unorderedIDMask | subscribeIDSpace
		} else {
			k = k&unorderedIDMask | unsubscribeIDSpace
		}
		for _, o := range keys {
			verifAssume(o != k)
		}
		keys = append(keys, k)
		cb := unorderedCallback{done: make(chan error, 1)}
		if sub {
			cb.topicFilters = []string{"x"}
		}
		txs.perPacketID[k] = cb
	}
	isSub := verifChoose("sub", 2) == 1
	var filters []string
	if isSub {
		filters = []string{"f"}
	}
	id, done, err := txs.startTx(filters)
	verifAssert(err == nil, "C17: slot refused below the limit")
	verifAssert(done != nil, "C11: no completion channel")
	verifAssert(id != 0, "C17: zero identifier")
	if isSub {
		verifAssert(id&^unorderedIDMask == subscribeIDSpace, "C17: subscribe identifier outside its range")
	} else {
		verifAssert(id&^unorderedIDMask == unsubscribeIDSpace, "C17: unsubscribe identifier outside its range")
	}
	for _, o := range keys {
		verifAssert(o != id, "C17: identifier of an in-flight request reused")
	}
	verifAssert(len(txs.perPacketID) == pre+1, "C11: registration did not add exactly one slot")
	d, f := txs.endTx(id)
	verifAssert(d != nil, "C11: endTx lost the completion channel")
	verifAssert(len(f) == len(filters), "C11: endTx returned another request's filters")
	verifAssert(len(txs.perPacketID) == pre, "C11: endTx did not release exactly the slot")
	for _, o := range keys {
		_, ok := txs.perPacketID[o]
		verifAssert(ok, "C11: endTx removed another request's slot")
	}
	verifReach("end")
}

// the 512-slot limit: ErrMax without blocking and without consuming anything
func verifH_C17_slotlimit() {
	verifUnwind(2000)
	c := verifNewClient(&verifStore{}, &Config{})
	conn := &verifConn{}
	verifGoOnline(c, conn)
	txs := &c.unorderedTxs
	granted := 0
	for i := 0; i < 600; i++ {
		_, _, err := txs.startTx(nil)
		if err != nil {
			verifAssert(errors.Is(err, ErrMax), "C17: slot exhaustion is not ErrMax")
			break
		}
		granted++
	}
	verifAssert(granted <= 8192, "C17: more requests in flight than identifiers")
	verifAssert(granted >= 1, "C17: no slot at all")
	n0 := txs.n
	err := c.Subscribe(nil, "a")
	verifAssert(errors.Is(err, ErrMax), "C17: excess subscribe not refused with ErrMax")
	verifAssert(len(conn.wlog) == 0, "C14: refused subscribe wrote bytes")
	verifAssert(txs.n == n0, "C17: refused subscribe consumed an identifier")
	verifAssert(len(txs.perPacketID) == granted, "C17: refused subscribe consumed a slot")
	verifReach("end")
}

// L05.a: two consecutive accepts are stamped n, n+1 and appear in that order.
func verifH_C05_order() {
	level := 1 + verifChoose("level", 2)
	w1, wr, wp := verifWindows(level)
	o := verifOutState(6, 6, w1, wr, wp, 0)
	c := o.c
	if verifChoose("conn", 2) == 0 {
		o.online(verifParam("wfaults", 1))
	}
	out := c.atLeastOnce
	if level == 2 {
		out = c.exactlyOnce
	}
	pre := <-out.seqSem
	out.seqSem <- pre
	m1 := verifBytes("m", 1)
	m2 := verifBytes("m", 1)
	var e1, e2 error
	if level == 1 {
		_, e1 = c.PublishAtLeastOnce(m1, "a")
		_, e2 = c.PublishAtLeastOnce(m2, "b")
	} else {
		_, e1 = c.PublishExactlyOnce(m1, "a")
		_, e2 = c.PublishExactlyOnce(m2, "b")
	}
	verifAssert(e1 == nil, "C05: valid publish refused")
	verifAssert(e2 == nil, "C05: valid publish refused")
	post := <-out.seqSem
	out.seqSem <- post
	var id1, id2 uint
	if level == 1 {
		id1, id2 = verifID1(pre.acceptN), verifID1(pre.acceptN+1)
	} else {
		id1, id2 = verifID2(pre.acceptN), verifID2(pre.acceptN+1)
	}
	p1 := verifRefPublish(false, level, false, []byte{'a'}, uint16(id1), m1)
	p2 := verifRefPublish(false, level, false, []byte{'b'}, uint16(id2), m2)
	if o.conn != nil {
		// whatever reached the wire is a prefix of p1 p2 (never p2 before p1, never p2 after a broken p1)
		both := append(append([]byte{}, p1...), p2...)
		k := len(o.conn.wlog)
		verifAssert(k <= len(both), "C05: more on the wire than the two packets")
		verifAssert(verifBytesEq(o.conn.wlog, both[:k]), "C05: first transmissions are not in acceptance order")
	}
	w1done := post.submitN > pre.acceptN
	w2done := post.submitN > pre.acceptN+1
	e := verifEntry{id: id1, packet: p1, written: w1done}
	f := verifEntry{id: id2, packet: p2, written: w2done}
	if level == 1 {
		o.q1 = append(o.q1, e, f)
	} else {
		o.q2 = append(o.q2, e, f)
	}
	o.observe("C05")
	o.drain("C05")
	verifReach("end")
}
