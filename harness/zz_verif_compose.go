//go:build verif

package mqtt

import (
	"context"
	"net"
)

// Bounded composition (DESIGN II.3.4): from the real initial state
// (InitSession on an empty store) k operations chosen by the solver-forked
// selector run against a shadow model; at the end the observers must agree.
// This is BMC of the real code over short histories; its role is to validate
// the invariant-state builders (every state it reaches must behave like the
// arbitrary INV states of the step lemmas) and the paper induction.
func verifH_C01_compose() {
	store := &verifStore{}
	readBufSize = verifB
	var conns []*verifInConn
	cfg := &Config{AtLeastOnceMax: 3, ExactlyOnceMax: 3, PauseTimeout: verifTimeoutChoice()}
	cfg.Dialer = func(ctx context.Context) (net.Conn, error) {
		vc := &verifInConn{}
		vc.in = []byte{0x20, 2, 0, 0}
		conns = append(conns, vc)
		return vc, nil
	}
	c, err := InitSession("cid", store, cfg)
	verifAssert(err == nil, "C01: InitSession fails on an empty store")
	o := &verifOut{c: c, store: store}
	online := false
	var cur *verifInConn
	n1, n2 := uint(0), uint(0) // accept counters of the shadow
	steps := verifParam("steps", 3)
	for s := 0; s < steps; s++ {
		switch verifChoose("op", 7) {
		case 0, 1:
			level := 1
			if len(o.q1) > len(o.q2) {
				level = 2
			}
			msg := verifBytes("m", 1)
			var ex <-chan error
			var perr error
			q := o.q1
			if level == 2 {
				q = o.q2
			}
			backlog := false
			for _, e := range q {
				if !e.written && !e.release {
					backlog = true
				}
			}
			var id uint
			if level == 1 {
				ex, perr = c.PublishAtLeastOnce(msg, "a")
				id = verifID1(n1)
			} else {
				ex, perr = c.PublishExactlyOnce(msg, "a")
				id = verifID2(n2)
			}
			if len(q) == 3 {
				verifAssert(perr != nil, "C17: publish accepted beyond the maximum")
				continue
			}
			verifAssert(perr == nil, "C01: valid publish refused")
			e := verifEntry{id: id, packet: verifRefPublish(false, level, false, []byte{'a'}, uint16(id), msg)}
			st, _ := verifExState(ex)
			e.written = online && !backlog && st == 0
			if level == 1 {
				n1++
				o.q1 = append(o.q1, e)
			} else {
				n2++
				o.q2 = append(o.q2, e)
			}
		case 2: // connection loss noticed by the read routine
			if online {
				c.toOffline()
				online = false
			}
		case 3: // (re)connect through the real dial + handshake + resend
			if !online {
				cerr := c.connect()
				verifAssert(cerr == nil, "C18: connect fails against an accepting broker")
				cur = conns[len(conns)-1]
				want := append([]byte{}, verifWireOf(o.q1)...)
				want = append(want, verifWireOf(o.q2)...)
				n := len(cur.wlog) - len(want)
				verifAssert(n > 0 && verifBytesEq(cur.wlog[n:], want), "C01/C05: reconnect does not resend exactly the pending transfers in order")
				for i := range o.q1 {
					o.q1[i].written = true
				}
				for i := range o.q2 {
					o.q2[i].written = true
				}
				online = true
			}
		case 4: // broker acknowledges the head at-least-once transfer it has seen
			if online && len(o.q1) > 0 && o.q1[0].written {
				c.peek = []byte{byte(o.q1[0].id >> 8), byte(o.q1[0].id)}
				verifAssert(c.onPUBACK() == nil, "C01: in-order PUBACK refused")
				o.q1 = o.q1[1:]
			}
		case 5: // PUBREC for the first exactly-once PUBLISH it has seen
			if online {
				for i := range o.q2 {
					if !o.q2[i].release {
						if o.q2[i].written {
							id := o.q2[i].id
							c.peek = []byte{byte(id >> 8), byte(id)}
							verifAssert(c.onPUBREC() == nil, "C03: in-order PUBREC refused")
							o.q2[i].release = true
							o.q2[i].packet = verifRelPacket(id)
						}
						break
					}
				}
			}
		case 6: // PUBCOMP for the head PUBREL
			if online && len(o.q2) > 0 && o.q2[0].release {
				c.peek = []byte{byte(o.q2[0].id >> 8), byte(o.q2[0].id)}
				verifAssert(c.onPUBCOMP() == nil, "C01: in-order PUBCOMP refused")
				o.q2 = o.q2[1:]
			}
		}
	}
	// restart in the middle of things, or carry on in the same process
	if verifChoose("restart", 2) == 1 {
		d2 := &verifDialer{}
		c2, warn, fatal := AdoptSession(store, &Config{Dialer: d2.dial, AtLeastOnceMax: 3, ExactlyOnceMax: 3})
		verifAssert(fatal == nil && len(warn) == 0, "C02: AdoptSession of a store left by a real run fails or warns")
		for i := range o.q1 {
			o.q1[i].written = true
		}
		for i := range o.q2 {
			o.q2[i].written = true
		}
		o.c = c2
		verifReach("restarted")
	}
	// the store wrapped by InitSession is rugged: observe through the same store
	o.store = store
	o.observeNoCount("C01(compose)")
	o.drain("C01(compose)")
	verifReach("end")
}
