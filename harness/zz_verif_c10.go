//go:build verif

package mqtt

import (
	"context"
	"errors"
	"net"
	"time"
)

// C10 — the read routine never wedges.  C12 — Close and Disconnect end the
// client from any state.

// L10.b: a foreign writer failed (closed the connection, left connPending)
// while the read routine still believes it is connected and owes a packet.
func verifH_C10_foreignfailure() {
	o := verifOutState(2, 2, 0, 0, verifChoose("wp", 2), 0)
	c := o.c
	o.online(0)
	conn := o.conn
	// what the read routine is about to write
	owed := verifChoose("owed", 4)
	switch owed {
	case 0:
		c.pendingAck = []byte{0x40, 2, 0, 7} // PUBACK
	case 1:
		c.pendingAck = []byte{0x50, 2, 0, 7} // PUBREC
	case 2:
		conn.in = []byte{0x62, 2, 0, 9} // buffered PUBREL -> PUBCOMP
	case 3:
		if len(o.q2) == 0 {
			return
		}
		verifAssume(o.q2[0].written)
		id := o.q2[0].id
		conn.in = []byte{0x50, 2, byte(id >> 8), byte(id)} // buffered PUBREC -> PUBREL
	}
	// let the bytes arrive in the buffer first (they were read before the failure)
	if len(conn.in) > 0 {
		c.bufr.Peek(len(conn.in))
	}
	// the foreign writer's failure: connection closed, token connPending (L08.c)
	conn.Close()
	verifSetWriteToken(c, connPending)
	calls := 0
	c.Config.Dialer = nil
	d := &verifDialer{}
	c.Config.Dialer = d.dial // every dial fails: reaching the dialer is what counts
	verifWedgeAtUnwind("C10: ReadSlices neither returns nor redials after another goroutine's write failure left connPending")
	verifUnwind(verifParam("spin", 8))
	var err error
	for calls < 3 && d.calls == 0 {
		_, _, err = c.ReadSlices()
		calls++
		if err == nil {
			break
		}
	}
	verifAssert(d.calls > 0, "C10: the failed connection was not left and redialed within three ReadSlices calls")
	_ = err
	verifReach("redialed")
}

// L10.a: every connection-borne failure of ReadSlices leaves the client
// offline with pending requests released; a truncated stream at any byte.
func verifH_C10_offline() {
	store := &verifStore{}
	rugged := &ruggedPersistence{Persistence: store}
	cfg := &Config{PauseTimeout: verifTimeoutChoice()}
	c := verifNewClient(rugged, cfg)
	conn := &verifInConn{}
	conn.rEOF = verifChoose("eof", 2) == 1
	<-c.writeSem
	c.writeSem <- conn
	<-c.connSem
	c.connSem <- conn
	c.readConn = conn
	c.bufr = verifNewBufr(conn)
	blockSignalChan(c.offlineSig)
	clearSignalChan(c.onlineSig)
	// a duplicate big QoS 2 message is among the candidates (marker present)
	rugged.Save(uint(0x0102)|remoteIDKeyFlag, [][]byte{{0x50, 2, 1, 2}})
	ps := verifInboundStream(1, true)
	full := ps[0].bytes
	cut := verifChoose("cut", len(full)) // stream ends after 0..len-1 bytes
	conn.in = full[:cut]
	subDone := make(chan error, 1)
	c.unorderedTxs.perPacketID[subscribeIDSpace|1] = unorderedCallback{done: subDone, topicFilters: []string{"a"}}
	pingDone := make(chan error, 1)
	c.pingAck <- pingDone

	_, _, err := c.ReadSlices()
	var big *BigMessage
	returned, skipped := false, false
	if errors.As(err, &big) {
		returned = true
		if verifChoose("skip", 2) == 1 {
			// the application does not read the payload; its ownership starts with the next call
			skipped = true
		} else {
			// the announced payload never arrives in full
			_, rerr := big.ReadAll()
			verifAssert(rerr != nil, "C06: ReadAll invents bytes")
		}
		_, _, err = c.ReadSlices()
	}
	verifAssert(err != nil, "C10: truncated stream delivered a message")
	verifAssert(verifIsOffline(c), "C10: a connection failure did not take the client offline (next ReadSlices would not redial)")
	st, e := verifExState(subDone)
	verifAssert(st == 2 && errors.Is(e, ErrBreak), "C10: pending subscribe not released with ErrBreak on connection loss")
	st, e = verifExState(pingDone)
	verifAssert(st == 2 && errors.Is(e, ErrBreak), "C10: pending ping not released with ErrBreak on connection loss")
	verifAssert(conn.closed, "C10: failed connection left open")
	after := verifNextConnection(c, store, "C10")
	p := ps[0]
	if !returned {
		verifAssert(len(after) == 0, "C07: an acknowledgement is sent on the next connection for a message that was never returned")
	} else if skipped {
		switch p.qos {
		case 0:
			verifAssert(len(after) == 0, "C07: acknowledgement for a QoS 0 message")
		case 1:
			verifAssert(verifBytesEq(after, []byte{0x40, 2, byte(p.id >> 8), byte(p.id)}), "C07: the PUBACK owed for a returned (skipped) big message is not sent on the next connection after the old one broke during the skip")
		case 2:
			verifAssert(verifBytesEq(after, []byte{0x50, 2, byte(p.id >> 8), byte(p.id)}), "C07: the PUBREC owed for a returned (skipped) big message is not sent on the next connection after the old one broke during the skip")
		}
		verifReach("skipped-big-acked")
	}
	verifReach("offline")
}

// L10.c: the read routine gives up the connection (protocol violation,
// Persistence error, failed discard) while another goroutine is stalled inside
// a Write that has no deadline (PauseTimeout 0, a peer that stopped reading)
// and holds the write token. Only closing the connection ends that write:
// toOffline must return, the writer must be released with ErrSubmit, and the
// client must be ready to redial.
func verifH_C10_stalledwrite() {
	store := &verifStore{}
	c := verifNewClient(store, &Config{})
	conn := &verifInConn{}
	conn.stall = make(chan struct{})
	verifGoOnline(c, &conn.verifConn)
	c.readConn = conn
	var werr error
	returned := false
	kind := verifChoose("writer", 2)
	go func() {
		switch kind {
		case 0:
			werr = c.Publish(nil, []byte{'m'}, "t")
		case 1:
			werr = c.Subscribe(nil, "f")
		case 2:
			var ex <-chan error
			ex, werr = c.PublishAtLeastOnce([]byte{'m'}, "t")
			if werr == nil {
				werr = <-ex
			}
		}
		returned = true
	}()
	verifQuiesce() // the writer sits in Write, holding the token
	verifAssert(!returned, "harness: the writer is not stalled")
	done := false
	go func() {
		c.toOffline()
		done = true
	}()
	verifQuiesce()
	verifAssert(done, "C10: the read routine waits for ever for the write token of a goroutine whose write only its own Close can end")
	verifAssert(returned, "C10/C11: a writer stalled on the abandoned connection is never released")
	verifAssert(conn.closed, "C10: the abandoned connection is left open")
	if returned {
		verifAssert(werr != nil, "C08: a write interrupted by the connection reset reports success")
	}
	verifAssert(verifIsOffline(c), "C10: the client is not offline after the read routine gave up the connection")
	verifNextConnectionWorks(c, store, "C10")
	verifReach("end")
}

// L10.d: ReadBackoff durations.
func verifH_C10_backoff() {
	min := time.Duration(verifInt("min"))
	max := time.Duration(verifInt("max"))
	cfg := &Config{ReconnectWaitMin: min, ReconnectWaitMax: max}
	c := verifNewClient(&verifStore{}, cfg)
	wait := time.Duration(verifInt("ramp"))
	// the ramp state is either 0 (reset) or twice an earlier clamped idle time
	verifAssume(wait >= 0)
	c.reconnectWait = wait
	effMin, effMax := c.ReconnectWaitMin, c.ReconnectWaitMax
	verifAssert(effMin >= 0, "C10: negative effective ReconnectWaitMin")
	verifAssert(effMax >= effMin, "C10: effective ReconnectWaitMax below the minimum")
	if min == 0 {
		verifAssert(effMin == time.Second, "C10: zero ReconnectWaitMin does not default to one second")
	}
	verifAssume(effMax < 1<<61) // doubling must not wrap
	var err error
	kind := verifChoose("err", 5)
	switch kind {
	case 0:
		err = nil
	case 1:
		err = ErrClosed
	case 2:
		err = verifErrHard
	case 3:
		err = connectReturn(verifU8("code"))
		verifAssume(err.(connectReturn) != accepted)
	case 4:
		err = verifErrStore
		c.readConn = &verifConn{}
	}
	ch := c.ReadBackoff(err)
	switch kind {
	case 0:
		verifAssert(ch != nil && verifIsReleased(ch), "C10: ReadBackoff(nil) must not block")
	case 1:
		verifAssert(ch == nil, "C10: ReadBackoff(ErrClosed) must be nil")
	case 2:
		verifAssert(ch != nil, "C10: ReadBackoff yields no channel for a non-fatal error")
		d := time.Duration(verifLastTimer(int64(c.reconnectWait / 2)))
		verifAssert(c.reconnectWait == 2*d, "C10: ramp-up is not a doubling of the idle time handed to the timer")
		verifAssert(d >= effMin && d <= effMax, "C10: reconnect wait outside [ReconnectWaitMin, ReconnectWaitMax]")
		verifReach("ramp")
	case 3:
		verifAssert(ch != nil, "C10: ReadBackoff yields no channel for a refusal")
		d := time.Duration(verifLastTimer(int64(effMax)))
		verifAssert(d == effMax, "C10: connection refusal does not wait the maximum")
	case 4:
		verifAssert(ch != nil, "C10: ReadBackoff yields no channel for a store error")
		d := time.Duration(verifLastTimer(int64(time.Second)))
		verifAssert(d == time.Second, "C10: store error wait is not the fixed second")
	}
	verifReach("end")
}

// L12.b / F6: Close while the handshake awaits CONNACK.
func verifH_C12_closeduringhandshake() {
	e := verifConnectState(0, 0, 0)
	c := e.o.c
	conn := e.conn
	closeDone := false
	var closeErr error
	conn.in = []byte{0x20, 2, 0, 0}
	disconnect := verifChoose("disconnect", 2) == 1
	conn.onRead = func() {
		if conn.rcalls == 1 {
			go func() {
				if disconnect {
					closeErr = c.Disconnect(nil)
				} else {
					closeErr = c.Close()
				}
				closeDone = true
			}()
			verifYield()
			verifYield()
		}
	}
	_, _, err := c.ReadSlices()
	verifQuiesce()
	verifAssert(closeDone, "C12: Close/Disconnect during the handshake does not return")
	_ = closeErr
	if err == nil {
		// the connect won the race; the next call must report the close
		_, _, err = c.ReadSlices()
	}
	for i := 0; i < 2 && !errors.Is(err, ErrClosed); i++ {
		_, _, err = c.ReadSlices()
	}
	verifAssert(errors.Is(err, ErrClosed), "C12: ReadSlices does not report ErrClosed after Close")
	verifQuiesce()
	verifAssert(verifLiveGoroutines() == 0, "C12: a goroutine is left behind after Close")
	verifAssert(conn.closed, "C12: connection left open after Close")
	verifAssert(verifIsReleased(c.Offline()) && !verifIsReleased(c.Online()), "C12: Offline not released / Online not blocked after Close")
	_, ok := <-c.writeSem
	verifAssert(!ok, "C12: write token not closed")
	_, ok = <-c.connSem
	verifAssert(!ok, "C12: connSem not closed")
	verifReach("closed")
}

// L12.b': Close / Disconnect while ReadSlices is inside the Dialer. The
// Dialer ends only when its context does; PauseTimeout is set but far away, so
// only the cancellation by Close/Disconnect can end the dial in time.
func verifH_C12_closeduringdial() {
	e := verifConnectState(0, 0, 0)
	c := e.o.c
	c.Config.PauseTimeout = time.Hour
	entered := false
	c.Config.Dialer = func(ctx context.Context) (net.Conn, error) {
		entered = true
		<-ctx.Done()
		return nil, ctx.Err()
	}
	disconnect := verifChoose("disconnect", 2) == 1
	readDone, closeDone := false, false
	var rerr error
	go func() {
		_, _, rerr = c.ReadSlices()
		readDone = true
	}()
	verifQuiesce()
	verifAssert(entered, "harness: ReadSlices did not dial")
	go func() {
		if disconnect {
			c.Disconnect(nil)
		} else {
			c.Close()
		}
		closeDone = true
	}()
	verifQuiesce()
	verifAssert(closeDone, "C12: Close/Disconnect does not return while ReadSlices is dialing (its cancellation does not reach the Dialer)")
	verifAssert(readDone, "C12: ReadSlices stays inside the Dialer after Close/Disconnect")
	if !closeDone || !readDone {
		return
	}
	for i := 0; i < 2 && !errors.Is(rerr, ErrClosed); i++ {
		_, _, rerr = c.ReadSlices()
	}
	verifAssert(errors.Is(rerr, ErrClosed), "C12: ReadSlices does not report ErrClosed after Close during the dial")
	verifQuiesce()
	verifAssert(verifLiveGoroutines() == 0, "C12: a goroutine is left behind after Close during the dial")
	verifAssert(verifIsReleased(c.Offline()) && !verifIsReleased(c.Online()), "C12: Offline not released / Online not blocked after Close")
	verifReach("closed")
}

var _ net.Conn = (*verifInConn)(nil)
