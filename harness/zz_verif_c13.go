//go:build verif

package mqtt

import (
	"errors"
	"io"
)

// C13 — hostile broker input.

func verifIsOffline(c *Client) bool {
	if c.readConn != nil {
		return false
	}
	tok := <-c.writeSem
	c.writeSem <- tok
	if tok != connPending {
		return false
	}
	return verifIsReleased(c.Offline()) && !verifIsReleased(c.Online())
}

// L13.a: fixed header. 1 type byte + up to 5 symbolic length bytes; a
// continuation bit on the fourth length byte must be refused.
func verifH_C13_header() {
	o := verifOutState(2, 2, 0, 0, 0, 0)
	c := o.c
	o.online(0)
	head := verifU8("head")
	lb := verifBytes("len", 5)
	o.conn.in = append([]byte{head}, lb...)
	o.conn.rEOF = true
	// reference: MQTT 2.2.3 — at most four bytes
	size := 0
	n := 0
	mult := 1
	malformed := false
	for {
		b := lb[n]
		n++
		size += int(b&127) * mult
		mult *= 128
		if b&128 == 0 {
			break
		}
		if n == 4 {
			malformed = true
			break
		}
	}
	_, _, err := c.ReadSlices()
	if malformed {
		verifAssert(err != nil, "C13: remaining length over four bytes accepted")
		verifAssert(errors.Is(err, errProtoReset), "C13: remaining length over four bytes not reported as protocol violation")
		var big *BigMessage
		verifAssert(!errors.As(err, &big), "C13: remaining length over four bytes decoded as a big message")
		verifAssert(verifIsOffline(c), "C13: connection kept after a malformed remaining length")
		verifReach("malformed")
		return
	}
	verifReach("wellformed-length")
}

// L13.b: one packet of arbitrary type and body from an INV state.
func verifH_C13_packet() {
	W := verifParam("W", 1)
	w1 := verifChoose("w1", W+1)
	wr := verifChoose("wr", W+1)
	wp := verifChoose("wp", W+1)
	o := verifOutState(4, 4, w1, wr, wp, 0)
	c := o.c
	o.online(0)
	typ := verifChoose("type", 16)
	flags := verifU8("flags") & 0x0f
	head := byte(typ<<4) | flags
	n := verifChoose("bodylen", verifParam("maxbody", 5)+1)
	body := verifBytes("body", n)
	o.conn.in = append([]byte{head, byte(n)}, body...)
	o.conn.rEOF = true
	// one registered subscribe and one unsubscribe request, one ping
	subDone := make(chan error, 1)
	unsDone := make(chan error, 1)
	subID := uint16(subscribeIDSpace | 5)
	unsID := uint16(unsubscribeIDSpace | 9)
	c.unorderedTxs.perPacketID[subID] = unorderedCallback{done: subDone, topicFilters: []string{"a", "b"}}
	c.unorderedTxs.perPacketID[unsID] = unorderedCallback{done: unsDone}
	// a marker for inbound identifier 0x0102
	marker := uint(0x0102) | remoteIDKeyFlag
	o.rugged.Save(marker, [][]byte{{0x50, 2, 1, 2}})
	o.store.ops = nil

	msg, topic, err := c.ReadSlices()

	id := uint(0)
	if n >= 2 {
		id = uint(body[0])<<8 | uint(body[1])
	}
	progress := func() bool { // did anything outbound complete or any record disappear?
		for _, op := range o.store.ops {
			if op.kind == 'D' || op.kind == 'S' {
				return true
			}
		}
		return false
	}
	violation := func(why string) {
		verifAssert(err != nil, "C13: "+why+" accepted")
		verifAssert(errors.Is(err, errProtoReset), "C13: "+why+" not reported as a protocol violation")
		verifAssert(verifIsOffline(c), "C13: connection kept after "+why)
		verifAssert(!progress(), "C13: "+why+" changed the persisted session")
		st1, _ := verifExState(subDone)
		verifAssert(st1 == 2, "C11: pending subscribe not released (exactly once) by the connection reset")
		o.observe("C13")
		verifNextConnectionWorks(c, o.store, "C13")
		verifReach("violation")
	}
	legitThenEOF := func(tag string) {
		verifAssert(err != nil, "C13: ReadSlices returned without a message")
		verifAssert(errors.Is(err, io.EOF), "C13: legitimate "+tag+" followed by EOF must report the EOF")
		verifAssert(!errors.Is(err, errProtoReset), "C13: legitimate "+tag+" reported as a protocol violation")
		verifAssert(verifIsOffline(c), "C13: connection kept after EOF")
		verifReach("legit-" + tag)
	}
	switch typ {
	case typeRESERVED0, typeCONNECT, typeCONNACK, typeSUBSCRIBE, typeUNSUBSCRIBE, typePINGREQ, typeDISCONNECT, typeRESERVED15:
		violation("reserved, client-only or repeated packet type")
	case typePUBLISH:
		qos := int(flags>>1) & 3
		ok := qos != 3 && n >= 2
		tl := 0
		if ok {
			tl = int(body[0])<<8 | int(body[1])
			need := 2 + tl
			if qos > 0 {
				need += 2
			}
			if need > n {
				ok = false
			}
		}
		pid := uint(0)
		if ok && qos > 0 {
			pid = uint(body[2+tl])<<8 | uint(body[3+tl])
			if pid == 0 {
				ok = false
			}
		}
		if !ok {
			violation("malformed PUBLISH")
			return
		}
		if qos == 2 && pid == 0x0102 {
			// duplicate of a message whose marker exists: suppressed, then EOF
			verifAssert(err != nil, "C04: duplicate exactly-once PUBLISH delivered again")
			verifAssert(errors.Is(err, io.EOF), "C13: suppressed duplicate followed by EOF must report the EOF")
			verifReach("legit-duplicate")
			return
		}
		verifAssert(err == nil, "C13: well-formed PUBLISH refused")
		verifAssert(verifBytesEq(topic, body[2:2+tl]), "C06: topic differs from what was sent")
		off := 2 + tl
		if qos > 0 {
			off += 2
		}
		verifAssert(verifBytesEq(msg, body[off:]), "C06: message differs from what was sent")
		verifAssert(len(o.conn.wlog) == 0, "C07: acknowledgement written before the application took ownership")
		verifReach("legit-publish")
	case typePUBACK, typePUBREC, typePUBCOMP:
		legit := n == 2
		var head verifEntry
		switch typ {
		case typePUBACK:
			if legit && w1 > 0 {
				head = o.q1[0]
				legit = id == head.id
			} else {
				legit = false
			}
		case typePUBCOMP:
			if legit && wr > 0 {
				head = o.q2[0]
				legit = id == head.id
			} else {
				legit = false
			}
		case typePUBREC:
			if legit && wp > 0 {
				head = o.q2[wr]
				legit = id == head.id
			} else {
				legit = false
			}
		}
		if !legit {
			violation("zero, foreign, out-of-order or unsolicited acknowledgement")
			return
		}
		if typ != typePUBCOMP && !head.written {
			// acknowledgement of a stored packet that was never written: unsolicited
			verifAssert(err != nil && errors.Is(err, errProtoReset) && !progress(), "C13: acknowledgement accepted for a packet that was never sent")
			verifReach("ack-unwritten")
			return
		}
		switch typ {
		case typePUBACK:
			o.q1 = o.q1[1:]
		case typePUBCOMP:
			o.q2 = o.q2[1:]
		case typePUBREC:
			o.q2[wr].release = true
			o.q2[wr].packet = verifRelPacket(id)
		}
		legitThenEOF("ack")
		o.observe("C13")
	case typePUBREL:
		if n != 2 || id == 0 {
			violation("malformed PUBREL")
			return
		}
		legitThenEOF("pubrel")
		verifAssert(verifBytesEq(o.conn.wlog, []byte{0x70, 2, body[0], body[1]}), "C04: PUBREL not answered with its PUBCOMP")
		if id == 0x0102 {
			verifAssert(o.store.find(marker) < 0, "C04: marker kept after PUBREL")
		}
	case typeSUBACK:
		ok := n >= 3 && id != 0 && id&^unorderedIDMask == subscribeIDSpace
		if ok {
			for _, code := range body[2:] {
				if code != 0 && code != 1 && code != 2 && code != 0x80 {
					ok = false
				}
			}
		}
		if ok && uint16(id) == subID && n-2 != 2 {
			ok = false // wrong number of return codes for that request
		}
		if !ok {
			verifAssert(err != nil, "C13: malformed SUBACK accepted")
			verifAssert(errors.Is(err, errProtoReset), "C13: malformed SUBACK not reported as a protocol violation")
			verifAssert(verifIsOffline(c), "C13: connection kept after malformed SUBACK")
			st, e := verifExState(subDone)
			verifAssert(st == 2, "C11: pending subscribe not released exactly once")
			verifAssert(errors.Is(e, ErrBreak) || errors.Is(e, ErrSubmit), "C14: subscribe released with an undocumented error on a connection reset")
			verifReach("violation-suback")
			return
		}
		legitThenEOF("suback")
	case typeUNSUBACK:
		if n != 2 || id == 0 || id&^unorderedIDMask != unsubscribeIDSpace {
			violation("malformed UNSUBACK")
			return
		}
		legitThenEOF("unsuback")
	case typePINGRESP:
		if n != 0 {
			violation("malformed PINGRESP")
			return
		}
		legitThenEOF("pingresp")
	}
}
