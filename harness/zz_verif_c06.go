//go:build verif

package mqtt

import (
	"bufio"
	"errors"
	"io"
	"net"
	"time"
)

// C04/C06/C07 — the inbound stream: byte-exact delivery under fragmentation,
// acknowledgements after ownership, exactly-once reception.

type verifInPacket struct {
	kind    int // 0 PUBLISH, 1 PUBREL, 2 PINGRESP
	qos     int
	id      uint16
	topic   []byte
	payload []byte
	bytes   []byte
}

// verifProgressConn: read deadline expiries happen only while a deadline is
// armed and only after progress since it was armed (the property's premise).
type verifInConn struct {
	verifConn
	progress   bool
	expiries   int
	onRead     func()
	mustArm    bool // reads must happen under an armed read deadline
	unarmed    int
	expired    bool  // a deadline expired and was not renewed yet: every read fails at once
	bounds     []int // packet boundaries of the inbound stream (offsets)
	armMid     bool  // with PauseTimeout set, reads inside a packet need an armed deadline
	midUnarmed int
	rcoarse    bool // short reads return 1, 2, n-1 or n bytes only
}

func verifNewBufr(conn net.Conn) *bufio.Reader { return bufio.NewReaderSize(conn, readBufSize) }

func (c *verifInConn) SetReadDeadline(t time.Time) error {
	c.expired = false
	c.verifConn.SetReadDeadline(t)
	if c.rArmed {
		c.progress = false
	}
	return nil
}

func (c *verifInConn) Read(p []byte) (int, error) {
	c.rcalls++
	if c.onRead != nil {
		c.onRead()
	}
	if c.mustArm && !c.rArmed {
		c.unarmed++
	}
	if c.expired {
		// like a real connection: a passed deadline stays in force until it is set again
		return 0, verifTimeoutErr{}
	}
	if c.armMid && !c.rArmed && c.rpos < len(c.in) {
		atBoundary := c.rpos == 0
		for _, b := range c.bounds {
			if b == c.rpos {
				atBoundary = true
			}
		}
		if !atBoundary {
			c.midUnarmed++
		}
	}
	if c.closed {
		return 0, net.ErrClosed
	}
	rest := len(c.in) - c.rpos
	if rest == 0 {
		if c.rEOF {
			return 0, io.EOF
		}
		return 0, verifTimeoutErr{}
	}
	if c.rfaults > 0 && c.rArmed && c.progress {
		if verifChoose("expiry", 2) == 1 {
			c.rfaults--
			c.expiries++
			c.progress = false
			c.expired = true
			return 0, verifTimeoutErr{}
		}
	}
	n := rest
	if n > len(p) {
		n = len(p)
	}
	if c.rcuts > 0 && n > 1 {
		c.rcuts--
		if c.rcoarse && n > 4 {
			n = []int{1, 2, n - 1, n}[verifChoose("rn", 4)]
		} else {
			n = 1 + verifChoose("rn", n)
		}
	}
	copy(p, c.in[c.rpos:c.rpos+n])
	c.rpos += n
	c.progress = true
	return n, nil
}

func verifPayloadSizes(h int) []int {
	// body sizes around the buffer: B-1, B, B+1, B+2, 2B+1; plus 0 and 1
	b := verifB
	out := []int{0, 1}
	bodies := []int{b - 1, b, b + 1, b + 2, 2*b + 1}
	if verifParam("long", 0) == 1 {
		bodies = append(bodies, 130) // two-byte remaining length
	}
	for _, body := range bodies {
		if body-h > 1 {
			out = append(out, body-h)
		}
	}
	return out
}

func verifInboundStream(maxPackets int, bigAllowed bool) []verifInPacket {
	n := 1 + verifChoose("packets", maxPackets)
	var ps []verifInPacket
	for i := 0; i < n; i++ {
		var p verifInPacket
		p.kind = verifChoose("kind", 3)
		switch p.kind {
		case 0:
			p.qos = verifChoose("qos", 3)
			p.topic = verifBytes("topic", 1+verifChoose("topiclen", 2))
			h := 2 + len(p.topic)
			if p.qos > 0 {
				h += 2
				p.id = verifU16("id")
				verifAssume(p.id != 0)
			}
			sizes := verifPayloadSizes(h)
			if !bigAllowed {
				sizes = sizes[:3]
			}
			p.payload = verifBytes("payload", sizes[verifChoose("size", len(sizes))])
			dup := verifChoose("dup", 2) == 1 && p.qos > 0
			p.bytes = verifRefPublish(dup, p.qos, false, p.topic, p.id, p.payload)
		case 1:
			p.id = verifU16("id")
			verifAssume(p.id != 0)
			p.bytes = []byte{0x62, 2, byte(p.id >> 8), byte(p.id)}
		case 2:
			p.bytes = []byte{0xd0, 0}
		}
		ps = append(ps, p)
	}
	return ps
}

// verifH_C06_discard: skipping n payload bytes (an unread BigMessage, a big
// duplicate) consumes exactly n bytes of the stream, for any fragmentation and
// any number of deadline expiries with progress in between; every read
// happens under an armed deadline when PauseTimeout is set.
func verifH_C06_discard() {
	verifUnwind(400)
	cfg := &Config{PauseTimeout: verifTimeoutChoice()}
	c := verifNewClient(&verifStore{}, cfg)
	conn := &verifInConn{rcoarse: true}
	conn.rcuts = verifParam("cuts", 2)
	conn.rEOF = true
	if cfg.PauseTimeout != 0 {
		conn.rfaults = verifParam("expiries", 3)
	}
	total := 2*readBufSize + 4
	for i := 0; i < total; i++ {
		conn.in = append(conn.in, byte(i+1))
	}
	c.readConn = conn
	c.bufr = bufio.NewReaderSize(conn, readBufSize)
	consumed := 0
	if verifChoose("prebuffered", 2) == 1 {
		// part of the payload sits in the buffer already (read together with the header)
		_, err := c.bufr.ReadByte()
		verifAssert(err == nil, "harness: first byte")
		consumed = 1
	}
	n := verifInt("n") // every size at once: the solver splits it where the code does
	verifAssume(n >= 1)
	verifAssume(n <= total-2)
	conn.mustArm = cfg.PauseTimeout != 0
	err := c.discard(n)
	conn.mustArm = false
	verifAssert(conn.unarmed == 0, "C13: discard reads from the connection without a read deadline although PauseTimeout is set")
	verifAssert(err == nil, "C06: skipping bytes that arrive with progress before every expiry fails")
	if err != nil {
		return
	}
	conn.rfaults = 0
	conn.expired = false
	b, rerr := c.bufr.ReadByte()
	verifAssert(rerr == nil, "C06: the stream is unreadable after a skip")
	verifAssert(int(b) == consumed+n+1, "C06: a skipped payload consumed more or fewer bytes than its size (the stream is misaligned for every packet that follows)")
	if conn.expiries >= 2 {
		verifReach("two-expiries")
	}
	verifReach("end")
}

// verifH_C06_stream: well-formed stream, arbitrary cuts and expiries with
// progress. Deliveries equal the PUBLISH packets sent (duplicates of owned
// exactly-once messages aside), acknowledgements equal the reference
// receiver's, each after ownership.
func verifH_C06_stream() {
	verifUnwind(400)
	store := &verifStore{}
	rugged := &ruggedPersistence{Persistence: store}
	cfg := &Config{PauseTimeout: verifTimeoutChoice()}
	c := verifNewClient(rugged, cfg)
	conn := &verifInConn{}
	conn.rcuts = verifParam("cuts", 2)
	conn.rEOF = true
	if cfg.PauseTimeout != 0 {
		conn.rfaults = verifParam("expiries", 1)
	}
	// install as the live connection
	<-c.writeSem
	c.writeSem <- conn
	<-c.connSem
	c.connSem <- conn
	c.readConn = conn
	c.bufr = bufio.NewReaderSize(conn, readBufSize)
	blockSignalChan(c.offlineSig)
	clearSignalChan(c.onlineSig)

	ps := verifInboundStream(verifParam("packets", 2), verifParam("big", 1) == 1)
	for _, p := range ps {
		conn.in = append(conn.in, p.bytes...)
		conn.bounds = append(conn.bounds, len(conn.in))
	}
	conn.armMid = cfg.PauseTimeout != 0

	// reference receiver
	owned := map[uint16]bool{} // exactly-once identifiers between delivery and PUBREL
	// a delivery cycle left open by an earlier connection or process: the
	// marker of an arbitrary identifier is in the Persistence already
	if verifParam("preowned", 0) == 1 {
		pid := verifU16("preowned")
		verifAssume(pid != 0)
		err := rugged.Save(uint(pid)|remoteIDKeyFlag, net.Buffers{[]byte{typePUBREC << 4, 2, byte(pid >> 8), byte(pid)}})
		verifAssert(err == nil, "harness: marker save")
		owned[pid] = true
	}
	var wantAcks []byte
	next := 0 // index of the next packet the reference expects to be handled
	deliveries := 0
	var prevAck []byte // ack owed for the previous return

	for call := 0; call <= len(ps); call++ {
		wireBefore := len(conn.wlog)
		msg, topic, err := c.ReadSlices()
		// ownership of the previous return was taken by this call: its ack must be out first
		if prevAck != nil {
			verifAssert(len(conn.wlog) >= wireBefore+4, "C07: acknowledgement of the previous message not written by the next ReadSlices")
			verifAssert(verifBytesEq(conn.wlog[wireBefore:wireBefore+4], prevAck), "C07: first bytes written by the next ReadSlices are not the acknowledgement of the previous message")
			wantAcks = append(wantAcks, prevAck...)
			prevAck = nil
		}
		// advance the reference over packets that produce no return
		for next < len(ps) {
			p := ps[next]
			if p.kind == 1 {
				delete(owned, p.id)
				wantAcks = append(wantAcks, 0x70, 2, byte(p.id>>8), byte(p.id))
				next++
				continue
			}
			if p.kind == 2 {
				next++
				continue
			}
			if p.qos == 2 && owned[p.id] {
				// duplicate while owned: not delivered, answered with PUBREC again
				wantAcks = append(wantAcks, 0x50, 2, byte(p.id>>8), byte(p.id))
				next++
				continue
			}
			break
		}
		if next == len(ps) {
			verifAssert(err != nil, "C06: a message was returned that the broker never sent")
			var big *BigMessage
			verifAssert(!errors.As(err, &big), "C06: a big message was returned that the broker never sent")
			verifAssert(verifBytesEq(conn.wlog, wantAcks), "C04/C07: acknowledgements on the wire differ from the reference receiver (missing, extra, reordered or wrong identifier)")
			verifAssert(conn.midUnarmed == 0, "C13: a read inside an incomplete packet happens without a read deadline although PauseTimeout is set (a stalling broker blocks the read routine)")
			verifReach("stream-end")
			if conn.expiries > 0 {
				verifReach("expiry-with-progress")
			}
			return
		}
		p := ps[next]
		next++
		var big *BigMessage
		switch {
		case err == nil:
			verifAssert(verifBytesEq(topic, p.topic), "C06: topic differs from what the broker sent")
			verifAssert(verifBytesEq(msg, p.payload), "C06: message differs from what the broker sent")
			verifReach("slices")
		case errors.As(err, &big):
			verifAssert(big.Topic == string(p.topic), "C06: BigMessage topic differs from what the broker sent")
			verifAssert(big.Size == len(p.payload), "C06: BigMessage size differs from the payload size")
			if verifChoose("readall", 2) == 1 {
				conn.mustArm = cfg.PauseTimeout != 0
				data, rerr := big.ReadAll()
				conn.mustArm = false
				verifAssert(conn.unarmed == 0, "C13: BigMessage.ReadAll reads from the connection without a read deadline although PauseTimeout is set (a stalling broker blocks the read routine for ever)")
				if rerr == nil {
					verifAssert(verifBytesEq(data, p.payload), "C06: BigMessage content differs from what the broker sent")
					verifReach("big-read")
				} else {
					verifReach("big-read-error")
					return
				}
			} else {
				verifReach("big-skipped")
			}
		default:
			verifFail("C06: well-formed stream with progress on every expiry ended in an error")
		}
		deliveries++
		verifAssert(len(conn.wlog) == len(wantAcks), "C07: something was written while the application holds the returned slices, or an acknowledgement is missing")
		switch p.qos {
		case 1:
			prevAck = []byte{0x40, 2, byte(p.id >> 8), byte(p.id)}
		case 2:
			prevAck = []byte{0x50, 2, byte(p.id >> 8), byte(p.id)}
			owned[p.id] = true
		}
	}
}
