//go:build verif

package mqtt

func verifH_smoke_arith() {
	a := verifU8("a")
	b := verifU8("b")
	verifAssume(a < 100)
	verifAssume(b < 100)
	s := a + b
	verifAssert(s >= a, "no wrap below 200")
	verifReach("end")
}

func verifH_smoke_fail() {
	a := verifU8("a")
	b := verifU8("b")
	s := a + b
	verifAssert(s >= a, "wraps")
}

func verifH_smoke_codec() {
	n := verifChoose("n", 4)
	p := verifBytes("p", n)
	seq := verifU64("seq")
	enc := encodeValue([][]byte{p}, seq)
	var flat []byte
	for _, b := range enc {
		flat = append(flat, b...)
	}
	got, gotSeq, err := decodeValue(flat)
	verifAssert(err == nil, "decode error")
	verifAssert(gotSeq == seq, "seq")
	verifAssert(len(got) == n, "len")
	for i := range got {
		verifAssert(got[i] == p[i], "byte")
	}
	verifReach("end")
}
