//go:build verif

package mqtt

import (
	"errors"
)

// C09 — emitted packets decode to the request; invalid arguments denied
// without trace.

// L09.a stringCheck/topicCheck against the RFC 3629 reference DFA.
func verifH_C09_strings() {
	n := verifChoose("len", verifParam("maxlen", 4)+1)
	b := verifBytes("s", n)
	s := string(b)
	want := verifRefUTF8(b) && !verifRefHasNUL(b)
	err := stringCheck(s)
	verifAssert((err == nil) == want, "C09: stringCheck disagrees with the reference (UTF-8 well-formedness / U+0000)")
	if err != nil {
		verifAssert(IsDeny(err), "C09: string rejection is not IsDeny")
		verifReach("rejected")
	} else {
		verifReach("accepted")
	}
	terr := topicCheck(s)
	verifAssert((terr == nil) == (want && n > 0), "C09: topicCheck disagrees with the reference")
	if terr != nil {
		verifAssert(IsDeny(terr), "C09: topic rejection is not IsDeny")
	}
}

// long strings with concrete content: the 65,535 limit
func verifH_C09_stringlimits() {
	verifUnwind(70000)
	mk := func(n int) string {
		b := make([]byte, n)
		for i := range b {
			b[i] = 'a'
		}
		return string(b)
	}
	verifAssert(stringCheck(mk(65535)) == nil, "C09: 65535-byte string refused")
	e := stringCheck(mk(65536))
	verifAssert(e != nil, "C09: 65536-byte string accepted")
	verifAssert(IsDeny(e), "C09: over-long string rejection is not IsDeny")
	verifReach("end")
}

// L09.b PUBLISH composition, all heads, symbolic topic/payload.
func verifH_C09_publish() {
	verifUnwind(300)
	tn := 1 + verifChoose("topiclen", verifParam("maxtopic", 3))
	topic := verifBytes("topic", tn)
	mn := verifChoose("msglen", verifParam("maxmsg", 3)+1)
	msg := verifBytes("msg", mn)
	qos := verifChoose("qos", 3)
	retain := verifChoose("retain", 2) == 1
	head := byte(typePUBLISH<<4) | byte(qos<<1)
	if retain {
		head |= retainFlag
	}
	var space uint
	switch qos {
	case 1:
		space = atLeastOnceIDSpace
	case 2:
		space = exactlyOnceIDSpace
	}
	var buf [bufSize]byte
	for i := range buf {
		buf[i] = verifU8("stale") // a recycled pool buffer holds stale bytes
	}
	valid := verifRefUTF8(topic) && !verifRefHasNUL(topic)
	packet, err := publishPacket(&buf, msg, string(topic), space, head)
	if !valid {
		verifAssert(err != nil, "C09: PUBLISH with an illegal topic accepted")
		verifAssert(IsDeny(err), "C09: PUBLISH denial is not IsDeny")
		verifReach("denied")
		return
	}
	verifAssert(err == nil, "C09: valid PUBLISH refused")
	got := verifFlat(packet)
	want := verifRefPublish(false, qos, retain, topic, uint16(space), msg)
	verifAssert(verifBytesEq(got, want), "C09: PUBLISH bytes differ from the reference encoding")
	verifAssert(len(packet) == 2, "C09: PUBLISH not header+payload")
	verifReach("encoded")
}

// remaining-length widths with an opaque-content payload of chosen length
func verifH_C09_publishsizes() {
	// total = 2 + len(topic) + len(msg) (+2); choose sizes across every width boundary
	sizes := []int{0, 1, 120, 121, 122, 123, 124, 125, 126, 127, 128, 16377, 16378, 16379, 16380, 16381, 16382, 16383, 16384}
	k := verifChoose("size", len(sizes))
	qos := verifChoose("qos", 3)
	msg := make([]byte, sizes[k])
	var space uint
	switch qos {
	case 1:
		space = atLeastOnceIDSpace
	case 2:
		space = exactlyOnceIDSpace
	}
	var buf [bufSize]byte
	packet, err := publishPacket(&buf, msg, "abc", space, byte(typePUBLISH<<4)|byte(qos<<1))
	verifAssert(err == nil, "C09: valid PUBLISH refused")
	want := verifRefPublish(false, qos, false, []byte("abc"), uint16(space), nil)
	_ = want
	hdr := packet[0]
	body := 2 + 3 + len(msg)
	if qos > 0 {
		body += 2
	}
	ref := append([]byte{byte(typePUBLISH<<4) | byte(qos<<1)}, verifRefVarint(body)...)
	verifAssert(len(hdr) >= len(ref), "C09: header too short")
	verifAssert(verifBytesEq(hdr[:len(ref)], ref), "C09: remaining length is not the minimal varint of the true size")
	verifAssert(len(hdr)-len(ref)+len(msg) == body, "C09: packet size differs from the remaining length")
	verifReach("end")
}

// L09.b for every payload length at once: the length is a solver variable
// (length-only slice), so the remaining-length encoding is checked at every
// width boundary (127/128, 16383/16384, 2097151/2097152) and the 268,435,455
// limit, not at sampled sizes.
func verifH_C09_publishlength() {
	n := verifInt("msglen")
	verifAssume(n >= 0)
	verifAssume(n <= 1<<28+16)
	msg := verifVirtualBytes(n)
	qos := verifChoose("qos", 3)
	tl := 1 + verifChoose("topiclen", 2)
	topic := "abc"[:tl]
	var space uint
	switch qos {
	case 1:
		space = atLeastOnceIDSpace | uint(verifU16("seq"))&publishIDMask
	case 2:
		space = exactlyOnceIDSpace | uint(verifU16("seq"))&publishIDMask
	}
	head := byte(typePUBLISH<<4) | byte(qos<<1)
	var buf [bufSize]byte
	packet, err := publishPacket(&buf, msg, topic, space, head)
	body := 2 + tl + n
	if qos > 0 {
		body += 2
	}
	if body > 268435455 {
		verifAssert(err != nil, "C09: a PUBLISH over 268,435,455 bytes is accepted")
		if err != nil {
			verifAssert(IsDeny(err), "C09: oversized PUBLISH refused with something else than IsDeny")
		}
		verifReach("too-big")
		return
	}
	verifAssert(err == nil, "C09: valid PUBLISH refused")
	if err != nil {
		return
	}
	verifAssert(len(packet) == 2, "C09: PUBLISH is not header + payload")
	hdr := packet[0]
	verifAssert(len(hdr) >= 2, "C09: header too short")
	verifAssert(hdr[0] == head, "C09: first byte differs from the requested type and flags")
	v, k := 0, 0
	for i := 1; k == 0; i++ {
		verifAssert(i <= 4, "C09: remaining length takes more than 4 bytes")
		verifAssert(i < len(hdr), "C09: remaining length runs past the header")
		if i > 4 || i >= len(hdr) {
			return
		}
		d := hdr[i]
		v |= int(d&0x7f) << (7 * uint(i-1))
		if d&0x80 == 0 {
			k = i
		}
	}
	verifAssert(v == body, "C09: remaining length differs from the true size")
	if k > 1 {
		verifAssert(hdr[k] != 0, "C09: remaining length is not the minimal encoding")
	}
	// the rest of the header is topic (+ identifier), exactly as the reference has it
	ref := verifRefPublish(false, qos, false, []byte(topic), uint16(space), nil)
	verifAssert(verifBytesEq(hdr[1+k:], ref[2:]), "C09: variable header differs from the reference")
	verifAssert(len(packet[1]) == n, "C09: payload length differs from the message")
	verifAssert(len(hdr)-1-k+len(packet[1]) == body, "C09: packet size differs from the remaining length")
	switch k {
	case 1:
		verifReach("len1")
	case 2:
		verifReach("len2")
	case 3:
		verifReach("len3")
	case 4:
		verifReach("len4")
	}
	verifReach("end")
}

// L09.c SUBSCRIBE / UNSUBSCRIBE through the real request methods.
func verifH_C09_subscribe() {
	store := &verifStore{}
	c := verifNewClient(store, &Config{})
	conn := &verifConn{}
	verifGoOnline(c, conn)
	c.unorderedTxs.n = uint(verifU64("counter"))
	nf := 1 + verifChoose("filters", 2)
	var filters []string
	var raw [][]byte
	valid := true
	for i := 0; i < nf; i++ {
		fn := verifChoose("flen", verifParam("maxfilter", 2)+1)
		b := verifBytes("f", fn)
		raw = append(raw, b)
		filters = append(filters, string(b))
		if !(fn > 0 && verifRefUTF8(b) && !verifRefHasNUL(b)) {
			valid = false
		}
	}
	n0 := c.unorderedTxs.n
	kind := verifChoose("kind", 4)
	var err error
	quit := verifClosedChan()
	switch kind {
	case 0:
		err = c.Subscribe(quit, filters...)
	case 1:
		err = c.SubscribeLimitAtMostOnce(quit, filters...)
	case 2:
		err = c.SubscribeLimitAtLeastOnce(quit, filters...)
	case 3:
		err = c.Unsubscribe(quit, filters...)
	}
	if !valid {
		verifAssert(err != nil, "C09: request with an illegal filter accepted")
		verifAssert(IsDeny(err), "C09: illegal filter not refused with IsDeny")
		verifAssert(len(conn.wlog) == 0, "C09: denied request wrote bytes")
		verifAssert(len(store.ops) == 0, "C09: denied request touched the store")
		verifAssert(len(c.unorderedTxs.perPacketID) == 0, "C09: denied request consumed a slot")
		verifAssert(c.unorderedTxs.n == n0, "C09: denied request consumed an identifier")
		verifReach("denied")
		return
	}
	verifAssert(!IsDeny(err), "C09: valid request refused as IsDeny")
	if errors.Is(err, ErrCanceled) {
		verifAssert(len(conn.wlog) == 0, "C09/C14: canceled request wrote bytes")
		verifReach("canceled")
		return
	}
	verifAssert(errors.Is(err, ErrAbandoned), "C09: unexpected outcome")
	var want []byte
	if kind == 3 {
		id := uint16(n0&unorderedIDMask | unsubscribeIDSpace)
		want = verifRefUnsubscribe(id, raw)
	} else {
		id := uint16(n0&unorderedIDMask | subscribeIDSpace)
		level := []byte{2, 0, 1}[kind]
		want = verifRefSubscribe(id, raw, level)
	}
	verifAssert(verifBytesEq(conn.wlog, want), "C09: (UN)SUBSCRIBE bytes differ from the reference encoding")
	verifAssert(len(c.unorderedTxs.perPacketID) == 0, "C09: abandoned request kept its slot")
	verifReach("encoded")
}

func verifH_C09_nofilters() {
	store := &verifStore{}
	c := verifNewClient(store, &Config{})
	conn := &verifConn{}
	verifGoOnline(c, conn)
	e1 := c.Subscribe(nil)
	e2 := c.Unsubscribe(nil)
	verifAssert(e1 != nil, "C09: SUBSCRIBE without filters accepted")
	verifAssert(e2 != nil, "C09: UNSUBSCRIBE without filters accepted")
	verifAssert(IsDeny(e1), "C09: SUBSCRIBE without filters is not IsDeny")
	verifAssert(IsDeny(e2), "C09: UNSUBSCRIBE without filters is not IsDeny")
	verifAssert(len(conn.wlog) == 0, "C09: denied request wrote bytes")
	verifAssert(len(c.unorderedTxs.perPacketID) == 0, "C09: denied request consumed a slot")
	verifReach("end")
}

// L09.d CONNECT with all options.
func verifH_C09_connect() {
	cfg := &Config{}
	d := &verifDialer{}
	cfg.Dialer = d.dial
	ref := &verifRefConnect{}
	ref.clientID = verifBytes("cid", verifChoose("cidlen", verifParam("maxcid", 2)+1))
	ref.cleanSession = verifBool("clean")
	ref.keepAlive = verifU16("keepalive")
	cfg.CleanSession = ref.cleanSession
	cfg.KeepAlive = ref.keepAlive
	user := verifBytes("user", verifChoose("userlen", verifParam("maxuser", 2)+1))
	cfg.UserName = string(user)
	switch verifChoose("pw", 3) {
	case 1:
		cfg.Password = []byte{}
	case 2:
		cfg.Password = verifBytes("pw", 1+verifChoose("pwlen", 2))
	}
	wtopic := verifBytes("wtopic", verifChoose("wtopiclen", verifParam("maxwtopic", 2)+1))
	cfg.Will.Topic = string(wtopic)
	switch verifChoose("will", 3) {
	case 1:
		cfg.Will.Message = []byte{}
	case 2:
		cfg.Will.Message = verifBytes("wmsg", 1+verifChoose("wmsglen", 2))
	}
	cfg.Will.Retain = verifBool("wretain")
	cfg.Will.AtLeastOnce = verifBool("wq1")
	cfg.Will.ExactlyOnce = verifBool("wq2")

	okStr := func(b []byte) bool { return verifRefUTF8(b) && !verifRefHasNUL(b) }
	wantValid := okStr(user) && okStr(wtopic)
	if cfg.Will.Message != nil {
		if len(wtopic) == 0 {
			wantValid = false
		}
	}
	err := cfg.valid()
	verifAssert((err == nil) == wantValid, "C09: Config.valid disagrees with the reference")
	if err != nil {
		verifReach("invalid")
		return
	}
	ref.hasPassword = cfg.Password != nil
	ref.password = cfg.Password
	ref.hasUser = len(user) != 0 || ref.hasPassword
	ref.user = user
	if cfg.Will.Message != nil {
		ref.hasWill = true
		ref.willTopic = wtopic
		ref.willMsg = cfg.Will.Message
		ref.willRetain = cfg.Will.Retain
		if cfg.Will.ExactlyOnce {
			ref.willQoS = 2
		} else if cfg.Will.AtLeastOnce {
			ref.willQoS = 1
		}
	}
	got := cfg.newCONNREQ(ref.clientID)
	want := verifRefCONNECT(ref)
	verifAssert(verifBytesEq(got, want), "C09: CONNECT bytes differ from the reference encoding")
	verifReach("encoded")
}

// L09.d field lengths across the 255/256 boundary: every length prefix in the
// CONNECT payload has two bytes, and each field's high byte must be its own
// (concrete content, lengths chosen independently per field).
func verifH_C09_connectsizes() {
	verifUnwind(3000)
	lens := []int{1, 255, 256, 300}
	mk := func(tag string, c byte) []byte {
		n := lens[verifChoose(tag, len(lens))]
		b := make([]byte, n)
		for i := range b {
			b[i] = c
		}
		return b
	}
	cfg := &Config{}
	d := &verifDialer{}
	cfg.Dialer = d.dial
	ref := &verifRefConnect{}
	ref.clientID = mk("cidlen", 'c')
	ref.keepAlive = 60
	cfg.KeepAlive = 60
	ref.user = mk("userlen", 'u')
	ref.hasUser = true
	cfg.UserName = string(ref.user)
	if verifChoose("pw", 2) == 1 {
		ref.password = mk("pwlen", 'p')
		ref.hasPassword = true
		cfg.Password = ref.password
	}
	if verifChoose("will", 2) == 1 {
		ref.hasWill = true
		ref.willTopic = mk("wtopiclen", 't')
		ref.willMsg = mk("wmsglen", 'm')
		cfg.Will.Topic = string(ref.willTopic)
		cfg.Will.Message = ref.willMsg
	}
	verifAssert(cfg.valid() == nil, "C09: valid Config refused")
	got := cfg.newCONNREQ(ref.clientID)
	want := verifRefCONNECT(ref)
	verifAssert(len(got) == len(want), "C09: CONNECT size differs from the reference")
	verifAssert(verifBytesEq(got, want), "C09: CONNECT bytes differ from the reference encoding (a length prefix or the remaining length is wrong for fields of 255..300 bytes)")
	verifReach("encoded")
}

// remaining-length width boundaries of SUBSCRIBE / UNSUBSCRIBE (concrete long filters)
func verifH_C09_requestsizes() {
	verifUnwind(70000)
	store := &verifStore{}
	c := verifNewClient(store, &Config{})
	conn := &verifConn{}
	verifGoOnline(c, conn)
	kind := verifChoose("kind", 2) // 0 subscribe, 1 unsubscribe
	totals := []int{126, 127, 128, 129, 16382, 16383, 16384, 16385}
	total := totals[verifChoose("total", len(totals))]
	// remaining length = 2 + (2 + len + 1) for subscribe, 2 + (2 + len) for unsubscribe
	n := total - 5
	if kind == 1 {
		n = total - 4
	}
	f := make([]byte, n)
	for i := range f {
		f[i] = 'a'
	}
	var err error
	if kind == 0 {
		err = c.SubscribeLimitAtLeastOnce(verifClosedChan(), string(f))
	} else {
		err = c.Unsubscribe(verifClosedChan(), string(f))
	}
	if errors.Is(err, ErrCanceled) {
		verifAssert(len(conn.wlog) == 0, "C14: canceled request wrote bytes")
		verifReach("canceled")
		return
	}
	verifAssert(errors.Is(err, ErrAbandoned), "C09: unexpected outcome for a valid request")
	var want []byte
	if kind == 0 {
		want = verifRefSubscribe(uint16(subscribeIDSpace), [][]byte{f}, 1)
	} else {
		want = verifRefUnsubscribe(uint16(unsubscribeIDSpace), [][]byte{f})
	}
	verifAssert(verifBytesEq(conn.wlog, want), "C09: (UN)SUBSCRIBE with a long filter differs from the reference encoding (remaining-length width boundary)")
	verifReach("encoded")
}
