//go:build verif

package mqtt

import (
	"net"
	"time"
)

// C08 — a connection carries whole packets only.

// verifCheckWire asserts the connection-level contract of one transfer of
// want: accepted bytes are a prefix of want, nil <=> complete, nothing is
// written after a failed write.
func verifCheckWire(conn *verifConn, want []byte, err error) {
	verifAssert(len(conn.wlog) <= len(want), "C08: more bytes on the wire than the packet has")
	k := len(conn.wlog)
	if k > len(want) {
		k = len(want)
	}
	verifAssert(verifBytesEq(conn.wlog[:k], want[:k]), "C08: bytes on the wire are not a prefix of the packet (skipped, repeated or altered bytes)")
	if err == nil {
		verifAssert(len(conn.wlog) == len(want), "C08: success reported for an incomplete packet")
	} else {
		verifAssert(len(conn.wlog) < len(want), "C08: error reported although the packet is complete")
	}
	verifAssert(conn.wafterBreak == 0, "C08: write after a failed write")
}

func verifTimeoutChoice() time.Duration {
	if verifChoose("pauseTimeout", 2) == 1 {
		return time.Second
	}
	return 0
}

// L08.a
func verifH_C08_writeTo() {
	n := 1 + verifChoose("len", verifParam("maxlen", 5))
	p := verifBytes("p", n)
	orig := append([]byte{}, p...)
	conn := &verifConn{wfaults: verifParam("faults", 3)}
	to := verifTimeoutChoice()
	err := writeTo(conn, p, to)
	verifCheckWire(conn, orig, err)
	verifAssert(verifBytesEq(p, orig), "C08: writeTo modified the caller's packet")
	if to != 0 {
		verifAssert(!conn.wArmed, "C08: write deadline left armed")
	}
	if err == nil {
		verifReach("complete")
	} else {
		verifReach("failed")
	}
	if conn.wtimeouts > 0 {
		verifReach("timeout-seen")
	}
}

// L08.b
func verifH_C08_writeBuffersTo() {
	hn := 1 + verifChoose("hlen", verifParam("maxhead", 4))
	pn := verifChoose("plen", verifParam("maxpayload", 3)+1)
	head := verifBytes("h", hn)
	payload := verifBytes("m", pn)
	want := append(append([]byte{}, head...), payload...)
	bufs := net.Buffers{head, payload}
	conn := &verifConn{wfaults: verifParam("faults", 3)}
	to := verifTimeoutChoice()
	err := writeBuffersTo(conn, bufs, to)
	verifCheckWire(conn, want, err)
	verifAssert(verifBytesEq(head, want[:hn]), "C08: writeBuffersTo modified the caller's header")
	verifAssert(verifBytesEq(payload, want[hn:]), "C08: writeBuffersTo modified the caller's payload")
	verifAssert(len(bufs) == 2, "C08: caller's buffer list changed")
	if to != 0 {
		verifAssert(!conn.wArmed, "C08: write deadline left armed")
	}
	if err == nil {
		verifReach("complete")
	} else {
		verifReach("failed")
	}
	if conn.wtimeouts > 0 {
		verifReach("timeout-seen")
	}
}
