//go:build verif

package mqtt

import (
	"errors"
	"os"
	"strconv"
)

// C19 — FileSystem store: the real fileSystem methods against a modelled file
// system. The engine redirects package os to the verifModel_os_* functions
// below (natively they are unused and the real os runs).

type verifFSFile struct {
	name    string
	content []byte
}

type verifCrash struct{}

type verifFS struct {
	files    []verifFSFile // directory entries, visible content
	handles  map[*os.File]string
	offs     map[*os.File]int  // write offset per open file
	appendTo map[*os.File]bool // opened with O_APPEND
	calls    int
	crashAt  int // the process stops before call number crashAt (0 = never)
	faults   int
	log      []string
	syncedBy map[string]bool // names whose content was synced since the last write
	yield    bool            // every modelled call is a scheduling point
}

func (fs *verifFS) sched() {
	if fs.yield {
		verifYield()
	}
}

var verifTheFS *verifFS

var verifErrIO = errors.New("verif: i/o error")

func (fs *verifFS) find(name string) int {
	for i := range fs.files {
		if fs.files[i].name == name {
			return i
		}
	}
	return -1
}

// step: one modelled system call; may be the stop point, may fail.
func (fs *verifFS) step(op string) bool {
	fs.calls++
	if fs.crashAt == fs.calls {
		panic(verifCrash{})
	}
	if fs.faults > 0 {
		if verifChoose("fsfault", 2) == 1 {
			fs.faults--
			fs.log = append(fs.log, op+":fail")
			return false
		}
	}
	fs.log = append(fs.log, op)
	return true
}

func verifModel_os_Create(name string) (*os.File, error) {
	fs := verifTheFS
	fs.sched()
	if !fs.step("create") {
		return nil, verifErrIO
	}
	if i := fs.find(name); i >= 0 {
		fs.files[i].content = nil
	} else {
		fs.files = append(fs.files, verifFSFile{name: name})
	}
	f := new(os.File)
	fs.handles[f] = name
	return f, nil
}

// OpenFile for writing: O_CREATE, O_TRUNC, O_EXCL and O_APPEND as POSIX has
// them; without O_TRUNC an existing file keeps its content and writes start at
// offset 0, overwriting.
func verifModel_os_OpenFile(name string, flag int, perm os.FileMode) (*os.File, error) {
	fs := verifTheFS
	fs.sched()
	if !fs.step("open") {
		return nil, verifErrIO
	}
	i := fs.find(name)
	if i < 0 {
		if flag&os.O_CREATE == 0 {
			return nil, os.ErrNotExist
		}
		fs.files = append(fs.files, verifFSFile{name: name})
	} else {
		if flag&os.O_CREATE != 0 && flag&os.O_EXCL != 0 {
			return nil, os.ErrExist
		}
		if flag&os.O_TRUNC != 0 {
			fs.files[i].content = nil
		}
	}
	f := new(os.File)
	fs.handles[f] = name
	if flag&os.O_APPEND != 0 {
		fs.appendTo[f] = true
	}
	return f, nil
}

// put writes p at the handle's offset (or at the end with O_APPEND).
func (fs *verifFS) put(f *os.File, i int, p []byte) {
	if i < 0 {
		return
	}
	c := fs.files[i].content
	off := fs.offs[f]
	if fs.appendTo[f] {
		off = len(c)
	}
	for k := 0; k < len(p); k++ {
		if off+k < len(c) {
			c[off+k] = p[k]
		} else {
			c = append(c, p[k])
		}
	}
	fs.files[i].content = c
	fs.offs[f] = off + len(p)
}

func verifModel_os_File_Write(f *os.File, p []byte) (int, error) {
	fs := verifTheFS
	fs.sched()
	name := fs.handles[f]
	fs.calls++
	i := fs.find(name)
	if fs.crashAt == fs.calls {
		// the process dies inside the write: an arbitrary prefix made it
		n := verifChoose("partial", len(p)+1)
		fs.put(f, i, p[:n])
		panic(verifCrash{})
	}
	if fs.faults > 0 {
		if verifChoose("fsfault", 2) == 1 {
			fs.faults--
			n := verifChoose("short", len(p)+1)
			if n == len(p) {
				n = 0
			}
			fs.put(f, i, p[:n])
			fs.log = append(fs.log, "write:fail")
			return n, verifErrIO
		}
	}
	fs.log = append(fs.log, "write")
	fs.put(f, i, p)
	return len(p), nil
}

func verifModel_os_File_Sync(f *os.File) error {
	fs := verifTheFS
	fs.sched()
	if !fs.step("sync:" + fs.handles[f]) {
		return verifErrIO
	}
	return nil
}

func verifModel_os_File_Close(f *os.File) error {
	fs := verifTheFS
	fs.sched()
	fs.calls++
	if fs.crashAt == fs.calls {
		panic(verifCrash{})
	}
	fs.log = append(fs.log, "close")
	return nil
}

func verifModel_os_File_Name(f *os.File) string { return verifTheFS.handles[f] }

func verifModel_os_Rename(oldpath, newpath string) error {
	fs := verifTheFS
	fs.sched()
	if !fs.step("rename:" + oldpath) {
		return verifErrIO
	}
	i := fs.find(oldpath)
	if i < 0 {
		return os.ErrNotExist
	}
	content := fs.files[i].content
	fs.files = append(fs.files[:i:i], fs.files[i+1:]...)
	if j := fs.find(newpath); j >= 0 {
		fs.files[j].content = content // atomic replace (POSIX)
	} else {
		fs.files = append(fs.files, verifFSFile{name: newpath, content: content})
	}
	return nil
}

func verifModel_os_Remove(name string) error {
	fs := verifTheFS
	fs.sched()
	if !fs.step("remove:" + name) {
		return verifErrIO
	}
	i := fs.find(name)
	if i < 0 {
		return os.ErrNotExist
	}
	fs.files = append(fs.files[:i:i], fs.files[i+1:]...)
	return nil
}

func verifModel_os_ReadFile(name string) ([]byte, error) {
	fs := verifTheFS
	fs.sched()
	i := fs.find(name)
	if i < 0 {
		return nil, os.ErrNotExist
	}
	out := make([]byte, len(fs.files[i].content))
	copy(out, fs.files[i].content)
	return out, nil
}

func verifModel_os_Open(name string) (*os.File, error) {
	f := new(os.File)
	verifTheFS.handles[f] = name
	return f, nil
}

func verifModel_os_File_Readdirnames(f *os.File, n int) ([]string, error) {
	fs := verifTheFS
	fs.sched()
	dir := fs.handles[f]
	var names []string
	for _, e := range fs.files {
		if len(e.name) > len(dir) && e.name[:len(dir)] == dir {
			names = append(names, e.name[len(dir):])
		}
	}
	return names, nil
}

func verifNewFS() *verifFS {
	verifTheFS = &verifFS{handles: map[*os.File]string{}, offs: map[*os.File]int{}, appendTo: map[*os.File]bool{}}
	return verifTheFS
}

// verifH_C19_atomic: Save / Delete of one key with a stop at every call
// boundary and inside the data write, or one failing call.
func verifH_C19_atomic() {
	fs := verifNewFS()
	p := FileSystem("d")
	key := uint(0x1c003)
	other := uint(0x00007)
	// previous value: absent or a complete record
	var old []byte
	if verifChoose("old", 2) == 1 {
		old = verifRecord(verifBytes("o", 1), verifU64("oseq"))
		fs.files = append(fs.files, verifFSFile{name: "d/1c003", content: append([]byte{}, old...)})
	}
	otherVal := verifRecord([]byte{9}, 5)
	fs.files = append(fs.files, verifFSFile{name: "d/00007", content: append([]byte{}, otherVal...)})
	// files in the directory that are not the store's: List must not turn them into keys
	fs.files = append(fs.files, verifFSFile{name: "d/2a", content: []byte{1}}, verifFSFile{name: "d/zzzzz", content: []byte{2}}, verifFSFile{name: "d/0002a7", content: []byte{3}})
	// a leftover spool file of an earlier interrupted Save may exist
	switch verifChoose("leftover", 3) {
	case 1:
		fs.files = append(fs.files, verifFSFile{name: "d/1c003.spool", content: []byte{1, 2, 3}})
	case 2: // longer than any value saved below
		fs.files = append(fs.files, verifFSFile{name: "d/1c003.spool", content: []byte{1, 2, 3, 4, 5, 6, 7, 8, 9, 10, 11, 12, 13, 14, 15, 16, 17, 18, 19, 20}})
	}
	b1 := verifBytes("v", 1+verifChoose("vlen", 2))
	trailer := verifBytes("t", 12)
	nv := append(append([]byte{}, b1...), trailer...)
	op := verifChoose("op", 2) // 0 Save, 1 Delete
	mode := verifChoose("mode", 3)
	switch mode {
	case 1:
		fs.crashAt = 1 + verifChoose("crashAt", verifParam("maxcalls", 8))
	case 2:
		fs.faults = 1
	}
	var err error
	crashed := false
	func() {
		defer func() {
			if r := recover(); r != nil {
				if _, ok := r.(verifCrash); !ok {
					panic(r)
				}
				crashed = true
			}
		}()
		if op == 0 {
			err = p.Save(key, [][]byte{b1, trailer})
		} else {
			err = p.Delete(key)
		}
	}()
	// what a fresh process sees
	fs.crashAt = 0
	fs.faults = 0
	p2 := FileSystem("d")
	got, lerr := p2.Load(key)
	verifAssert(lerr == nil, "C19: Load fails after the stop")
	isOld := (got == nil && old == nil) || (got != nil && old != nil && verifBytesEq(got, old))
	isNew := got != nil && verifBytesEq(got, nv)
	if op == 0 {
		verifAssert(isOld || isNew, "C19: after a stop during Save the key holds neither its complete previous nor its complete new value")
		if !crashed {
			if err == nil {
				verifAssert(isNew, "C19: Save returned nil but the new value is not visible")
				syncAt, renameAt := -1, -1
				for i, l := range fs.log {
					if l == "sync:d/1c003.spool" && syncAt < 0 {
						syncAt = i
					}
					if l == "rename:d/1c003.spool" {
						renameAt = i
					}
				}
				verifAssert(syncAt >= 0 && renameAt > syncAt, "C19: the value became visible before its content was flushed")
				verifReach("saved")
			} else {
				verifAssert(isOld, "C19: a failed Save did not leave the previous value in place")
				verifReach("save-failed")
			}
		} else {
			verifReach("stopped")
		}
	} else {
		verifAssert(isOld || got == nil, "C19: after Delete the key holds something else than its previous value or nothing")
		if !crashed && err == nil {
			verifAssert(got == nil, "C19: Delete returned nil but the value is still there")
			verifReach("deleted")
		}
	}
	// other keys are untouched
	ov, oerr := p2.Load(other)
	verifAssert(oerr == nil && verifBytesEq(ov, otherVal), "C19: an operation disturbed another key")
	// List reports only loadable keys, never spool files
	keys, kerr := p2.List()
	verifAssert(kerr == nil, "C19: List fails")
	for _, k := range keys {
		v, e := p2.Load(k)
		verifAssert(e == nil && v != nil, "C19: List reports an entry that Load cannot return")
		verifAssert(k == key || k == other, "C19: List reports a key that was never saved (spool file?)")
	}
	verifReach("end")
}

// verifH_C19_concurrent: operations on different keys running concurrently,
// every modelled system call a scheduling point, one call may fail: each
// operation has exactly the effect it has alone, and a concurrent List + Load
// sees complete values only.
func verifH_C19_concurrent() {
	fs := verifNewFS()
	p := FileSystem("d")
	k1, k2 := uint(0x1c003), uint(0x00007)
	var old1 []byte
	if verifChoose("old", 2) == 1 {
		old1 = verifRecord(verifBytes("o", 1), verifU64("oseq"))
		fs.files = append(fs.files, verifFSFile{name: "d/1c003", content: append([]byte{}, old1...)})
	}
	old2 := verifRecord([]byte{9}, 5)
	fs.files = append(fs.files, verifFSFile{name: "d/00007", content: append([]byte{}, old2...)})
	b1 := verifBytes("v", 1)
	t1 := verifBytes("t", 12)
	v1 := append(append([]byte{}, b1...), t1...)
	b2 := verifBytes("w", 2)
	t2 := verifBytes("u", 12)
	v2 := append(append([]byte{}, b2...), t2...)
	fs.faults = verifParam("faults", 0)
	fs.yield = true
	opB := verifChoose("opB", 3)
	var errA, errB error
	doneA := make(chan struct{})
	doneB := make(chan struct{})
	go func() {
		errA = p.Save(k1, [][]byte{b1, t1})
		close(doneA)
	}()
	go func() {
		switch opB {
		case 0:
			errB = p.Save(k2, [][]byte{b2, t2})
		case 1:
			errB = p.Delete(k2)
		case 2:
			keys, err := p.List()
			errB = err
			for _, k := range keys {
				verifAssert(k == k1 || k == k2, "C19: a concurrent List reports a key that was never saved (spool file?)")
				v, e := p.Load(k)
				verifAssert(e == nil, "C19: Load fails next to a concurrent Save")
				if k == k2 {
					verifAssert(v != nil && verifBytesEq(v, old2), "C19: a Save of another key disturbed this key")
				} else {
					okOld := old1 != nil && v != nil && verifBytesEq(v, old1)
					okNew := v != nil && verifBytesEq(v, v1)
					verifAssert(okOld || okNew, "C19: a concurrent reader sees something else than the complete previous or the complete new value")
				}
			}
		}
		close(doneB)
	}()
	<-doneA
	<-doneB
	fs.yield = false
	fs.faults = 0
	got1, e1 := p.Load(k1)
	got2, e2 := p.Load(k2)
	verifAssert(e1 == nil && e2 == nil, "C19: Load fails after concurrent operations")
	if errA == nil {
		verifAssert(got1 != nil && verifBytesEq(got1, v1), "C19: Save returned nil next to a concurrent operation on another key but its value is not there")
	} else {
		verifAssert((got1 == nil && old1 == nil) || (got1 != nil && old1 != nil && verifBytesEq(got1, old1)), "C19: a failed Save next to a concurrent operation did not leave the previous value")
	}
	switch opB {
	case 0:
		if errB == nil {
			verifAssert(got2 != nil && verifBytesEq(got2, v2), "C19: concurrent Saves of different keys disturbed each other")
		} else {
			verifAssert(got2 != nil && verifBytesEq(got2, old2), "C19: a failed Save did not leave the previous value (concurrent Save of another key)")
		}
	case 1:
		if errB == nil {
			verifAssert(got2 == nil, "C19: Delete returned nil but the value is still there (concurrent Save of another key)")
		} else {
			verifAssert(got2 != nil && verifBytesEq(got2, old2), "C19: a failed Delete changed the value")
		}
	case 2:
		verifAssert(got2 != nil && verifBytesEq(got2, old2), "C19: a Save disturbed another key")
	}
	keys, kerr := p.List()
	verifAssert(kerr == nil, "C19: List fails")
	for _, k := range keys {
		verifAssert(k == k1 || k == k2, "C19: List reports a key that was never saved (spool file left behind?)")
	}
	for _, f := range fs.files {
		verifAssert(len(f.name) <= 7 || f.name[len(f.name)-6:] != ".spool", "C19: a spool file is left behind after the operations returned")
	}
	verifReach("end")
}

// verifH_C19_names: file names are injective and parse back, for every key.
func verifH_C19_names() {
	d := fileSystem("d/")
	k1 := uint(verifU32("k1")) & 0x1ffff
	k2 := uint(verifU32("k2")) & 0x1ffff
	f1, f2 := d.file(k1), d.file(k2)
	s1 := d.spoolFile(k1)
	verifAssert(len(f1) == 7, "C19: file name is not dir + 5 hex digits")
	if k1 != k2 {
		verifAssert(f1 != f2, "C19: two keys share a file")
		verifAssert(d.spoolFile(k2) != s1, "C19: two keys share a spool file")
	}
	verifAssert(s1 != f2, "C19: a spool file name collides with a value file name")
	verifReach("distinct")
}

func verifH_C19_parse() {
	d := fileSystem("")
	k := uint(verifU32("k")) & 0x1ffff
	name := d.file(k)
	u, err := strconv.ParseUint(name, 16, 17)
	verifAssert(err == nil, "C19: a file name does not parse back")
	verifAssert(uint(u) == k, "C19: a file name parses back to another key")
	verifAssert(len(name) == 5, "C19: file name is not 5 hex digits")
	verifReach("end")
}
