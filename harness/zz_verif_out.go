//go:build verif

package mqtt

// Outbound QoS 1/2 pre-states satisfying the representation invariant
// (DESIGN 4.1), a shadow model of the in-flight transfers, and the observer
// (resend onto a fresh connection).

type verifEntry struct {
	id      uint   // packet identifier == store key
	release bool   // true: PUBREL stage
	packet  []byte // what must go on the wire (without DUP)
	written bool   // a complete first transmission happened in this process
	ex      chan error
}

type verifOut struct {
	c      *Client
	store  *verifStore
	rugged *ruggedPersistence
	conn   *verifConn
	q1     []verifEntry // at-least-once, in order
	q2     []verifEntry // exactly-once: PUBRELs then PUBLISHes
	k1, k2 int
	// retryOK: a PUBREL whose write failed after it was recorded; the library
	// keeps it to retry, so it may follow the regular resend once more
	retryOK []byte
}

func verifID1(n uint) uint { return n&publishIDMask | atLeastOnceIDSpace }
func verifID2(n uint) uint { return n&publishIDMask | exactlyOnceIDSpace }

func verifRelPacket(id uint) []byte {
	return []byte{0x62, 2, byte(id >> 8), byte(id)}
}

// verifOutState builds an arbitrary INV state: ring positions free, w1 QoS 1
// PUBLISHes, wr PUBRELs, wp QoS 2 PUBLISHes in flight, a symbolic number of
// them already written. The connection state is left offline (connPending).
func verifOutState(k1, k2, w1, wr, wp int, faults int) *verifOut {
	o := &verifOut{store: &verifStore{}, k1: k1, k2: k2}
	o.rugged = &ruggedPersistence{Persistence: o.store}
	cfg := &Config{AtLeastOnceMax: k1, ExactlyOnceMax: k2, PauseTimeout: verifTimeoutChoice()}
	o.c = verifNewClient(o.rugged, cfg)
	c := o.c

	sigma := verifU64("sigma")
	verifAssume(sigma < 1<<62)

	// at-least-once
	a := uint(verifU64("acked"))
	verifAssume(a < 1<<62)
	c.orderedTxs.Acked = a
	s1 := <-c.atLeastOnce.seqSem
	s1.acceptN = a + uint(w1)
	s1.submitN = a + uint(verifChoose("written1", w1+1))
	for i := 0; i < w1; i++ {
		id := verifID1(a + uint(i))
		p := verifRefPublish(false, 1, false, []byte{'t'}, uint16(id), verifBytes("m1", 1))
		sigma++
		o.store.put(id, verifRecord(p, sigma))
		ex := make(chan error, 2)
		c.atLeastOnce.queue <- ex
		o.q1 = append(o.q1, verifEntry{id: id, packet: p, written: a+uint(i) < s1.submitN, ex: ex})
	}
	c.atLeastOnce.seqSem <- s1

	// exactly-once
	cc := uint(verifU64("completed"))
	verifAssume(cc < 1<<62)
	c.orderedTxs.Completed = cc
	c.orderedTxs.Received = cc + uint(wr)
	s2 := <-c.exactlyOnce.seqSem
	s2.acceptN = cc + uint(wr+wp)
	// PUBRELs imply their PUBLISH was written; of the PUBLISHes a prefix was
	s2.submitN = cc + uint(wr) + uint(verifChoose("written2", wp+1))
	for i := 0; i < wr+wp; i++ {
		id := verifID2(cc + uint(i))
		var p []byte
		if i < wr {
			p = verifRelPacket(id)
		} else {
			p = verifRefPublish(false, 2, false, []byte{'t'}, uint16(id), verifBytes("m2", 1))
		}
		sigma++
		o.store.put(id, verifRecord(p, sigma))
		ex := make(chan error, 2)
		c.exactlyOnce.queue <- ex
		o.q2 = append(o.q2, verifEntry{id: id, release: i < wr, packet: p, written: cc+uint(i) < s2.submitN, ex: ex})
	}
	c.exactlyOnce.seqSem <- s2
	o.rugged.seqNo.Store(sigma)
	o.store.faults = faults
	return o
}

func (o *verifOut) online(wfaults int) {
	o.conn = &verifConn{wfaults: wfaults}
	verifGoOnline(o.c, o.conn)
}

// wireOf is what resend must emit for a queue.
func verifWireOf(q []verifEntry) []byte {
	var out []byte
	for _, e := range q {
		p := append([]byte{}, e.packet...)
		if e.written && !e.release {
			p[0] |= dupeFlag
		}
		out = append(out, p...)
	}
	return out
}

// observe resends both queues onto a fresh, fault-free connection and compares
// with the shadow model: exactly the in-flight set, in order, at the right
// stage, DUP only on re-deliveries, original identifiers.
func (o *verifOut) observe(tag string)        { o.observe2(tag, true) }
func (o *verifOut) observeNoCount(tag string) { o.observe2(tag, false) }

func (o *verifOut) observe2(tag string, count bool) {
	c := o.c
	verifTokensHome(c, tag)
	saved := o.store.faults
	o.store.faults = 0
	obs := &verifConn{}
	s1 := <-c.atLeastOnce.seqSem
	err := c.resend(obs, c.orderedTxs.Acked, &s1, atLeastOnceIDSpace)
	c.atLeastOnce.seqSem <- s1
	verifAssert(err == nil, tag+": resend of the at-least-once queue fails (record missing or unreadable)")
	verifAssert(verifBytesEq(obs.wlog, verifWireOf(o.q1)), tag+": at-least-once resend differs from the unacknowledged set (content, order, DUP or identifiers)")
	verifAssert(len(c.atLeastOnce.queue) == len(o.q1), tag+": at-least-once queue length differs from the in-flight count")

	obs2 := &verifConn{}
	s2 := <-c.exactlyOnce.seqSem
	err = c.resend(obs2, c.orderedTxs.Completed, &s2, exactlyOnceIDSpace)
	c.exactlyOnce.seqSem <- s2
	verifAssert(err == nil, tag+": resend of the exactly-once queue fails (record missing or unreadable)")
	verifAssert(verifBytesEq(obs2.wlog, verifWireOf(o.q2)), tag+": exactly-once resend differs from the unacknowledged set (PUBLISH after PUBREC, order, DUP or identifiers)")
	verifAssert(len(c.exactlyOnce.queue) == len(o.q2), tag+": exactly-once queue length differs from the in-flight count")
	// the store holds nothing else in the outbound spaces
	n := 0
	for i := range o.store.slots {
		if o.store.slots[i].present {
			if o.store.slots[i].key&0x18000 == 0x8000 {
				n++
			}
		}
	}
	if count {
		verifAssert(n == len(o.q1)+len(o.q2), tag+": store holds a different number of outbound records than transfers in flight")
	}
	o.store.faults = saved
}

// reconnect: the connection is lost now (as after any handler error, or by
// itself) and a healthy broker takes the next one. What the client writes
// there after CONNECT must be exactly the pending transfers of the shadow
// model, in order — nothing left over from the failed operation (a queued
// acknowledgement, a half-applied step) may appear.
func (o *verifOut) reconnect(tag string) {
	c := o.c
	if c.readConn != nil {
		c.toOffline()
	}
	after := verifNextConnection(c, o.store, tag)
	want := append(verifWireOf(o.q1), verifWireOf(o.q2)...)
	if len(o.retryOK) != 0 && len(after) == len(want)+len(o.retryOK) {
		want = append(want, o.retryOK...)
	}
	verifAssert(verifBytesEq(after, want), tag+": on the connection after the failure the client writes something else than the pending transfers in order (a packet left over from the failed step, a missing or extra retransmission)")
	for i := range o.q1 {
		o.q1[i].written = true
	}
	for i := range o.q2 {
		o.q2[i].written = true
	}
}

// exState classifies what an exchange channel holds: 0 empty+open, 1 closed,
// 2 one error, 3 more.
func verifExState(ex <-chan error) (state int, err error) {
	select {
	case e, ok := <-ex:
		if !ok {
			return 1, nil
		}
		select {
		case _, ok := <-ex:
			if ok {
				return 3, e
			}
			return 3, e
		default:
			return 2, e
		}
	default:
		return 0, nil
	}
}

// drain plays the conforming broker: every pending transfer is acknowledged in
// order; each acknowledgement must be accepted, close the exchange (if any)
// and remove the record. Afterwards nothing is in flight.
func (o *verifOut) drain(tag string) {
	c := o.c
	saved := o.store.faults
	o.store.faults = 0
	conn := &verifConn{}
	<-c.writeSem
	c.writeSem <- conn
	ack := func(id uint) { c.peek = []byte{byte(id >> 8), byte(id)} }
	for _, e := range o.q1 {
		ack(e.id)
		err := c.onPUBACK()
		verifAssert(err == nil, tag+": the in-order PUBACK of a pending transfer is refused (it can never complete)")
		if e.ex != nil {
			st, _ := verifExState(e.ex)
			verifAssert(st == 1 || st == 2 || st == 3, tag+": exchange not closed by PUBACK")
		}
	}
	for _, e := range o.q2 {
		if e.release {
			ack(e.id)
			err := c.onPUBCOMP()
			verifAssert(err == nil, tag+": the in-order PUBCOMP of a pending PUBREL is refused (the transfer can never complete)")
		}
	}
	for _, e := range o.q2 {
		if !e.release {
			ack(e.id)
			err := c.onPUBREC()
			verifAssert(err == nil, tag+": the in-order PUBREC of a pending PUBLISH is refused (the transfer can never complete)")
			ack(e.id)
			err = c.onPUBCOMP()
			verifAssert(err == nil, tag+": the in-order PUBCOMP after PUBREC is refused (the transfer can never complete)")
		}
	}
	verifAssert(len(c.atLeastOnce.queue) == 0 && len(c.exactlyOnce.queue) == 0, tag+": transfers left in flight after every acknowledgement arrived")
	n := 0
	for i := range o.store.slots {
		if o.store.slots[i].present {
			if o.store.slots[i].key&0x18000 == 0x8000 {
				n++
			}
		}
	}
	verifAssert(n == 0, tag+": records left in the Persistence after every acknowledgement arrived")
	o.store.faults = saved
}

// resumes reports whether c would resend exactly q1 and q2 (content, order, stage, identifiers).
func verifResumes(c *Client, q1, q2 []verifEntry) bool {
	obs := &verifConn{}
	s1 := <-c.atLeastOnce.seqSem
	err := c.resend(obs, c.orderedTxs.Acked, &s1, atLeastOnceIDSpace)
	c.atLeastOnce.seqSem <- s1
	if err != nil {
		return false
	}
	w1 := verifWireOf(q1)
	if len(obs.wlog) != len(w1) {
		return false
	}
	if !verifBytesEq(obs.wlog, w1) {
		return false
	}
	obs2 := &verifConn{}
	s2 := <-c.exactlyOnce.seqSem
	err = c.resend(obs2, c.orderedTxs.Completed, &s2, exactlyOnceIDSpace)
	c.exactlyOnce.seqSem <- s2
	if err != nil {
		return false
	}
	w2 := verifWireOf(q2)
	if len(obs2.wlog) != len(w2) {
		return false
	}
	return verifBytesEq(obs2.wlog, w2)
}

func verifAllWritten(q []verifEntry) []verifEntry {
	out := append([]verifEntry{}, q...)
	for i := range out {
		out[i].written = true // adopted clients mark every PUBLISH as duplicate (documented)
		out[i].ex = nil
	}
	return out
}
