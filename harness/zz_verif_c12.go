//go:build verif

package mqtt

import "errors"

// L12.a / L12.c: Close and Disconnect from each sequential state.
func verifH_C12_states() {
	o := verifOutState(3, 3, verifChoose("w1", 2), 0, verifChoose("wp", 2), 0)
	c := o.c
	state := verifChoose("state", 4)
	switch state {
	case 1:
		verifSetWriteToken(c, connDown)
	case 2:
		o.online(verifParam("wfaults", 1))
	case 3:
		c.Close()
	}
	// a persisted publish accepted through the real API whose submission error is still unread
	var apiEx <-chan error
	if state != 3 {
		ex0, perr0 := c.PublishAtLeastOnce([]byte{'q'}, "q")
		if perr0 == nil {
			apiEx = ex0
		}
	}
	var pend []chan error
	for _, e := range o.q1 {
		pend = append(pend, e.ex)
	}
	for _, e := range o.q2 {
		pend = append(pend, e.ex)
	}
	subDone := make(chan error, 1)
	c.unorderedTxs.perPacketID[subscribeIDSpace|1] = unorderedCallback{done: subDone, topicFilters: []string{"a"}}
	var err error
	how := verifChoose("how", 3)
	switch how {
	case 0:
		err = c.Close()
	case 1:
		err = c.Disconnect(nil)
	case 2:
		err = c.Disconnect(verifClosedChan())
	}
	if how == 1 && state == 2 && err == nil {
		n := len(o.conn.wlog)
		verifAssert(n >= 2 && o.conn.wlog[n-2] == 0xe0 && o.conn.wlog[n-1] == 0, "C12: successful Disconnect without DISCONNECT as the last packet")
		verifReach("disconnected")
	}
	if how != 0 && state == 3 {
		verifAssert(errors.Is(err, ErrClosed), "C12: Disconnect on a closed client must report ErrClosed")
	}
	if state == 2 {
		verifAssert(o.conn.closed, "C12: connection left open")
	}
	verifAssert(verifIsReleased(c.Offline()) && !verifIsReleased(c.Online()), "C12: Offline not released / Online not blocked")
	// afterwards every method reports ErrClosed
	verifAssert(errors.Is(c.Publish(nil, nil, "t"), ErrClosed), "C12: Publish after close")
	verifAssert(errors.Is(c.Subscribe(nil, "t"), ErrClosed), "C12: Subscribe after close")
	verifAssert(errors.Is(c.Unsubscribe(nil, "t"), ErrClosed), "C12: Unsubscribe after close")
	verifAssert(errors.Is(c.Ping(nil), ErrClosed), "C12: Ping after close")
	verifAssert(errors.Is(c.Disconnect(nil), ErrClosed), "C12: Disconnect after close")
	verifAssert(c.Close() == nil, "C12: second Close")
	wireAfter := 0
	if o.conn != nil {
		wireAfter = len(o.conn.wlog)
	}
	ex, perr := c.PublishAtLeastOnce(nil, "t")
	if perr == nil {
		st, e := verifExState(ex)
		verifAssert(st == 2 && errors.Is(e, ErrClosed) || st == 2 && errors.Is(e, ErrDown), "C12: persisted publish after close neither refused nor reported on its exchange")
		pend = append(pend, nil)
		pend = pend[:len(pend)-1]
	} else {
		verifAssert(errors.Is(perr, ErrClosed) || errors.Is(perr, ErrMax), "C12: persisted publish after close")
	}
	_, _, rerr := c.ReadSlices()
	verifAssert(errors.Is(rerr, ErrClosed), "C12: ReadSlices after close must report ErrClosed")
	// the read loop of the package example ends on a nil ReadBackoff: it must be nil
	// for ErrClosed whatever state the client was closed in
	verifAssert(c.ReadBackoff(rerr) == nil, "C14: ReadBackoff is not nil for the ErrClosed that ReadSlices reports after Close/Disconnect (a read loop would poll the closed client for ever)")
	verifAssert(c.Backoff(rerr) == nil, "C14: Backoff is not nil for ErrClosed")
	_, _, rerr = c.ReadSlices()
	verifAssert(errors.Is(rerr, ErrClosed), "C12: second ReadSlices after close")
	verifQuiesce()
	for _, ch := range pend {
		st, e := verifExState(ch)
		verifAssert(st == 2, "C12: pending exchange must hold exactly one error and stay open after ReadSlices reported ErrClosed")
		verifAssert(errors.Is(e, ErrClosed), "C12: pending exchange error is not ErrClosed")
	}
	if apiEx != nil {
		// whatever the submission left on the exchange, ErrClosed comes last and the channel stays open
		var last error
		n := 0
		for {
			select {
			case e, ok := <-apiEx:
				verifAssert(ok, "C12: exchange closed although the transfer was never acknowledged")
				last = e
				n++
				continue
			default:
			}
			break
		}
		verifAssert(n >= 1 && errors.Is(last, ErrClosed), "C12: exchange of a pending persisted publish did not receive ErrClosed")
		verifReach("api-exchange")
	}
	st, e := verifExState(subDone)
	verifAssert(st == 2 && (errors.Is(e, ErrBreak) || errors.Is(e, ErrClosed)), "C12: pending subscribe not released")
	_, perr = c.PublishAtLeastOnce(nil, "t")
	verifAssert(errors.Is(perr, ErrClosed), "C12: persisted publish after ReadSlices reported ErrClosed must return ErrClosed")
	if o.conn != nil {
		verifAssert(len(o.conn.wlog) == wireAfter, "C12: bytes written after close")
	}
	verifAssert(verifLiveGoroutines() == 0, "C12: a goroutine is left behind")
	verifReach("closed")
}
