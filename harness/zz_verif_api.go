//go:build verif

package mqtt

// Harness API. In symbolic mode (gosx) every function in this file whose name
// starts with "verif" and that is listed in the engine's API table is
// intercepted and its body ignored. The bodies below are the native replay
// mode: nondeterministic values come from a vector produced by the solver.

import (
	"encoding/json"
	"fmt"
	"os"
)

type verifVecEntry struct {
	Tag  string `json:"tag"`
	Kind string `json:"kind"`
	Val  uint64 `json:"val"`
}

type verifVector struct {
	Harness string          `json:"harness"`
	Params  map[string]int  `json:"params"`
	Nondets []verifVecEntry `json:"nondets"`
	Loose   bool            `json:"loose"` // translator validation: values are taken in order regardless of tags
	Yields  []string        `json:"yields"` // order in which goroutines passed the stubs' scheduling points
}

var verifReached []string

var verifVec verifVector
var verifVecPos int

type verifViolation struct{ msg string }
type verifAssumeFailed struct{}

func verifLoadVector(path string) error {
	b, err := os.ReadFile(path)
	if err != nil {
		return err
	}
	verifVec = verifVector{}
	verifVecPos = 0
	return json.Unmarshal(b, &verifVec)
}

func verifNext(tag, kind string) uint64 {
	if verifVecPos >= len(verifVec.Nondets) {
		// beyond the recorded path: any value will do
		return 0
	}
	e := verifVec.Nondets[verifVecPos]
	verifVecPos++
	if e.Tag != tag && !verifVec.Loose {
		panic(fmt.Sprintf("verif replay: vector mismatch at %d: want tag %q, vector has %q", verifVecPos-1, tag, e.Tag))
	}
	return e.Val
}

func verifU8(tag string) uint8   { return uint8(verifNext(tag, "u8")) }
func verifU16(tag string) uint16 { return uint16(verifNext(tag, "u16")) }
func verifU32(tag string) uint32 { return uint32(verifNext(tag, "u32")) }
func verifU64(tag string) uint64 { return verifNext(tag, "u64") }
func verifInt(tag string) int    { return int(verifNext(tag, "int")) }
func verifBool(tag string) bool  { return verifNext(tag, "bool") != 0 }

// verifChoose returns a value in [0,n); the engine forks over all of them.
func verifChoose(tag string, n int) int {
	if n <= 0 {
		return 0
	}
	u := verifNext(tag, "choice")
	if verifVec.Loose {
		return int(u % uint64(n))
	}
	v := int(u)
	if v >= n {
		v = 0
	}
	return v
}

func verifParam(name string, def int) int {
	if v, ok := verifVec.Params[name]; ok {
		return v
	}
	return def
}

func verifAssume(c bool) {
	if !c {
		panic(verifAssumeFailed{})
	}
}

func verifAssert(c bool, msg string) {
	if !c {
		panic(verifViolation{msg})
	}
}

func verifFail(msg string) { panic(verifViolation{msg}) }

func verifReach(tag string)     { verifReached = append(verifReached, tag) }
func verifUnwind(n int)         {}
func verifPreempt(n int)        {}
func verifConcrete(v int) int   { return v }
func verifExpectDeadlock()      {}
func verifYield()               { verifNativeSleep() }

// verifBytes returns n nondeterministic bytes.
func verifBytes(tag string, n int) []byte {
	b := make([]byte, n)
	for i := range b {
		b[i] = verifU8(tag)
	}
	return b
}

// verifVirtualBytes returns n zero bytes. In the engine the slice has a length
// (which may be a solver variable) and no content: any use of the content stops
// the path as unsupported. For code that depends on len(message) only.
func verifVirtualBytes(n int) []byte { return make([]byte, n) }

// verifIte and verifB2I are branch-free selections (one path in the engine).
func verifIte(c bool, a, b int) int {
	if c {
		return a
	}
	return b
}

func verifB2I(c bool) int {
	if c {
		return 1
	}
	return 0
}

func verifNote(msg string, vals ...any) {}

// verifLiveGoroutines reports goroutines of the engine's model other than the
// caller; natively it cannot be known and the harness sleeps instead.
func verifLiveGoroutines() int {
	verifNativeSleep()
	return 0
}

// verifQuiesce waits until all other goroutines are finished or blocked.
func verifQuiesce() {
	for i := 0; i < 10; i++ {
		verifNativeSleep()
	}
}

// verifOnUnwind(1): paths that exceed the unwinding bound are cut silently
// (unfair schedules of a polling loop). verifWedgeAtUnwind: such a path is a
// violation (a loop that polls an unchanged state).
func verifOnUnwind(mode int)        {}
func verifWedgeAtUnwind(msg string) {}

// verifLastTimer is the duration handed to the last time.AfterFunc (engine);
// natively the timer cannot be observed and the fallback is returned.
func verifLastTimer(fallback int64) int64 { return fallback }

// verifYieldTag is a scheduling point inside an environment stub. The engine
// forks over who continues; the order taken on the reported path is replayed
// natively: a goroutine waits here until it is its tag's turn (bounded wait).
func verifYieldTag(tag string) { verifNativeTurn(tag) }
