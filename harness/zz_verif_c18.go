//go:build verif

package mqtt

import (
	"context"
	"errors"
	"io"
	"net"
	"time"
)

// C18 — connection set-up.

type verifConnectEnv struct {
	o      *verifOut
	d      *verifDialer
	ref    *verifRefConnect
	prev   *verifConn
	conn   *verifInConn
	clean1 bool // CleanSession as it must appear in CONNECT
}

// verifConnectState: an INV client that is offline, with a stored client
// identifier, a previous connection or none, symbolic Config options.
func verifConnectState(w1, wr, wp int) *verifConnectEnv {
	e := &verifConnectEnv{}
	e.o = verifOutState(4, 4, w1, wr, wp, 0)
	c := e.o.c
	light := verifParam("light", 0) == 1 // reduced configuration space when the harness serves another property
	cid := verifBytes("cid", verifChoose("cidlen", 2-verifParam("light", 0)))
	e.o.store.put(clientIDKey, verifRecord(cid, 1))
	e.ref = &verifRefConnect{clientID: cid}
	c.Config.CleanSession = verifBool("clean")
	c.Config.KeepAlive = verifU16("keepalive")
	e.ref.keepAlive = c.Config.KeepAlive
	opt := 0
	if !light {
		opt = verifChoose("options", 3)
	}
	if opt == 1 {
		c.Config.UserName = "u"
		c.Config.Password = []byte{'p'}
		e.ref.hasUser, e.ref.user = true, []byte{'u'}
		e.ref.hasPassword, e.ref.password = true, []byte{'p'}
	}
	if opt == 2 {
		c.Config.Will.Topic = "w"
		c.Config.Will.Message = []byte{'m'}
		c.Config.Will.AtLeastOnce = true
		e.ref.hasWill, e.ref.willTopic, e.ref.willMsg, e.ref.willQoS = true, []byte{'w'}, []byte{'m'}, 1
	}
	e.clean1 = c.Config.CleanSession
	if verifChoose("reconnect", 2) == 1 {
		e.prev = &verifConn{closed: true}
		<-c.connSem
		c.connSem <- e.prev
		e.clean1 = false // reconnects never clean the session
	}
	e.ref.cleanSession = e.clean1
	e.conn = &verifInConn{}
	e.d = &verifDialer{conns: []*verifConn{}}
	c.Config.Dialer = func(ctx context.Context) (net.Conn, error) {
		e.d.calls++
		if e.d.fail {
			return nil, verifErrDial
		}
		return e.conn, nil
	}
	return e
}

func verifH_C18_connect() {
	w1, wr, wp := 0, 0, 0
	switch verifChoose("pending", verifParam("shapes", 3)) {
	case 1:
		w1, wr = 1, 1 // both levels pending: the second resend follows the first on the same connection
	case 2:
		wr, wp = 1, 1
	case 3:
		w1, wr, wp = 2, 1, 2
	}
	e := verifConnectState(w1, wr, wp)
	c := e.o.c
	conn := e.conn
	light := verifParam("light", 0) == 1
	if !light {
		e.d.fail = verifChoose("dialfails", 2) == 1
	}
	// the broker's reply: 0..5 arbitrary bytes, then EOF or silence
	n := 4
	if !light {
		n = verifChoose("acklen", 6)
	}
	ack := verifBytes("ack", n)
	conn.in = ack
	conn.rEOF = verifChoose("eof", 2) == 1
	conn.rcuts = verifParam("cuts", 1)
	conn.wfaults = verifParam("wfaults", 1)
	conn.coarse = verifParam("coarse", 1) == 1

	ramp := time.Duration(verifInt("ramp"))
	c.reconnectWait = ramp
	err := c.connect()
	verifTokensHome(c, "C10/C18(connect)")
	if err != nil {
		verifAssert(c.reconnectWait == ramp, "C10: backoff ramp-up reset although the connect attempt failed (consecutive failures would not double the wait)")
	} else {
		verifAssert(c.reconnectWait == 0, "C10: backoff ramp-up not reset after a successful connect")
	}

	tok := <-c.writeSem
	c.writeSem <- tok
	cs := <-c.connSem
	c.connSem <- cs
	wantCONNECT := verifRefCONNECT(e.ref)
	// second: after a failed attempt a healthy broker is there for the retry.
	// The retry must succeed, ask for a clean session only if no connection
	// was ever established, and resend the pending transfers in order (DUP on
	// those the failed attempt had resent completely).
	second := func(established bool, resent int) {
		if verifParam("second", 1) != 1 {
			return
		}
		off := 0
		for i := range e.o.q1 {
			off += len(e.o.q1[i].packet)
			if off <= resent {
				e.o.q1[i].written = true
			}
		}
		for i := range e.o.q2 {
			off += len(e.o.q2[i].packet)
			if off <= resent {
				e.o.q2[i].written = true
			}
		}
		ref2 := *e.ref
		ref2.cleanSession = e.clean1 && !established
		got, after := verifNextConnection2(c, e.o.store, "C18(retry)", !ref2.cleanSession)
		verifAssert(verifBytesEq(got, verifRefCONNECT(&ref2)), "C18: the CONNECT of the retry after a failed attempt differs from the reference (clean session is asked only until a connection was established)")
		want2 := append(verifWireOf(e.o.q1), verifWireOf(e.o.q2)...)
		verifAssert(verifBytesEq(after, want2), "C18: the retry after a failed attempt does not resend exactly the pending transfers in order")
	}
	if e.d.fail {
		verifAssert(err != nil, "C18: connect succeeded without a connection")
		verifAssert(errors.Is(err, verifErrDial), "C18: dial error not reported")
		verifAssert(tok == connDown, "C18: write token not connDown after a failed dial")
		verifAssert(len(conn.wlog) == 0, "C18: bytes written without a connection")
		if e.prev == nil {
			verifAssert(cs == nil, "C18: connSem changed by a failed dial (CleanSession would be dropped)")
		} else {
			verifAssert(cs == e.prev, "C18: connSem changed by a failed dial")
		}
		verifAssert(c.readConn == nil, "C18: read connection installed after a failed dial")
		second(false, 0)
		verifReach("dial-failed")
		return
	}
	// CONNECT is the first thing on the wire
	k := len(conn.wlog)
	if k > len(wantCONNECT) {
		k = len(wantCONNECT)
	}
	verifAssert(verifBytesEq(conn.wlog[:k], wantCONNECT[:k]), "C18: first bytes on the connection are not the CONNECT for the Config, the stored identifier and the clean-session rule")
	if len(conn.wlog) < len(wantCONNECT) {
		verifAssert(err != nil, "C18: connect succeeded with an incomplete CONNECT")
		verifAssert(tok == connDown, "C18: write token not connDown after a failed CONNECT")
		verifAssert(conn.closed, "C18: connection left open after a failed CONNECT")
		verifAssert(c.readConn == nil, "C18: read connection installed after a failed CONNECT")
		second(false, 0)
		verifReach("connect-write-failed")
		return
	}
	// reply classification by the specification
	headerBad := n >= 2 && (ack[0] != 0x20 || ack[1] != 2)
	accepted := false
	if n >= 4 && !headerBad {
		if ack[3] == 0 {
			if ack[2] == 0 {
				accepted = true
			}
			if ack[2] == 1 && !e.clean1 {
				accepted = true
			}
		}
	}
	if !accepted {
		verifAssert(err != nil, "C18: connect succeeded without a valid accepting CONNACK")
		verifAssert(len(conn.wlog) == len(wantCONNECT), "C18: something written after CONNECT without a valid accepting CONNACK")
		verifAssert(tok == connDown, "C18: write token not connDown after a refused/malformed/missing CONNACK")
		verifAssert(conn.closed, "C18: connection left open after a refused/malformed/missing CONNACK")
		verifAssert(c.readConn == nil, "C18: read connection installed without CONNACK")
		verifAssert(!verifIsReleased(c.Online()), "C18: Online released without CONNACK")
		if e.prev == nil {
			verifAssert(cs == nil, "C18: connSem changed although the handshake did not complete (CleanSession would be dropped)")
		} else {
			verifAssert(cs == e.prev, "C18: connSem changed although the handshake did not complete")
		}
		second(false, 0)
		switch {
		case headerBad:
			verifAssert(errors.Is(err, errProtoReset), "C18: malformed CONNACK not reported as protocol violation")
			verifReach("malformed")
		case n < 4:
			if conn.rEOF {
				verifAssert(errors.Is(err, io.EOF), "C18: missing CONNACK with EOF not reported as such")
			} else {
				var ne interface{ Timeout() bool }
				verifAssert(errors.As(err, &ne), "C18: missing CONNACK with expiry not reported as timeout")
			}
			verifReach("short")
		case ack[3] != 0:
			verifAssert(IsConnectionRefused(err), "C18: return code 1..255 is not IsConnectionRefused")
			verifReach("refused")
		default:
			verifAssert(errors.Is(err, errProtoReset), "C18: illegal CONNACK flags not reported as protocol violation")
			verifReach("badflags")
		}
		return
	}
	// accepted: the handshake completed, from now on reconnects never clean
	verifAssert(cs == net.Conn(conn), "C18: connSem does not hold the new connection after the handshake")
	want := append(append([]byte{}, wantCONNECT...), verifWireOf(e.o.q1)...)
	want = append(want, verifWireOf(e.o.q2)...)
	k = len(conn.wlog)
	verifAssert(k <= len(want), "C18: more written than CONNECT and the pending transfers")
	verifAssert(verifBytesEq(conn.wlog, want[:k]), "C18: after CONNACK the retransmission of pending transfers, in order, must come first")
	if k < len(want) {
		verifAssert(err != nil, "C18: connect succeeded with an incomplete resend")
		verifAssert(tok == connDown, "C18: write token not connDown after a failed resend")
		verifAssert(conn.closed, "C18: connection left open after a failed resend")
		verifAssert(c.readConn == nil, "C18: read connection installed after a failed resend")
		verifAssert(!verifIsReleased(c.Online()), "C18: Online released after a failed resend")
		second(true, k-len(wantCONNECT))
		verifReach("resend-failed")
		return
	}
	verifAssert(err == nil, "C18: connect failed although everything succeeded")
	verifAssert(tok == net.Conn(conn), "C18: live write token not installed")
	verifAssert(c.readConn == net.Conn(conn), "C18: read connection not installed")
	verifAssert(verifIsReleased(c.Online()) && !verifIsReleased(c.Offline()), "C18: Online/Offline signals wrong after connect")
	verifAssert(c.InNewSession.Load() == (ack[2] == 0), "C18: InNewSession does not reflect session-present")
	verifReach("online")
}

// requests issued in each connect phase: pending waits, down fails with ErrDown
func verifH_C18_lockwrite() {
	o := verifOutState(2, 2, 0, 0, 0, 0)
	c := o.c
	switch verifChoose("phase", 4) {
	case 0: // connect attempt failed
		verifSetWriteToken(c, connDown)
		conn, err := c.lockWrite(nil)
		verifAssert(conn == nil && errors.Is(err, ErrDown), "C18: request after a failed connect attempt must fail with ErrDown")
		err = c.Publish(nil, nil, "t")
		verifAssert(errors.Is(err, ErrDown), "C18: Publish after a failed connect attempt must fail with ErrDown")
		verifReach("down")
	case 1: // attempt in progress, request canceled by quit
		verifOnUnwind(1) // schedules that never pick the quit case are cut at the bound
		conn, err := c.lockWrite(verifClosedChan())
		if err == nil {
			verifFail("C18: request got a connection while a connect attempt is in progress")
		}
		verifAssert(conn == nil, "C18: request got a connection while a connect attempt is in progress")
		verifAssert(errors.Is(err, ErrCanceled), "C18: pending request ended by something else than quit")
		verifReach("pending-quit")
	case 2: // attempt in progress, then it succeeds
		verifOnUnwind(1)
		vc := &verifConn{}
		go func() {
			verifGoOnline(c, vc)
		}()
		conn, err := c.lockWrite(nil)
		verifAssert(err == nil && conn == net.Conn(vc), "C18: request waiting for a connect attempt did not get its outcome")
		verifReach("pending-online")
	case 3: // attempt in progress, then it fails
		verifOnUnwind(1)
		go func() {
			verifSetWriteToken(c, connDown)
		}()
		_, err := c.lockWrite(nil)
		verifAssert(errors.Is(err, ErrDown), "C18: request waiting for a connect attempt that failed must get ErrDown")
		verifReach("pending-down")
	}
}
