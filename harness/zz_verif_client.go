//go:build verif

package mqtt

// Builders of client pre-states and observers shared by the harnesses.

import (
	"bufio"
)

// verifB is the scaled read-buffer size (bufio's minimum is 16).
const verifB = 16

func verifNewClient(store Persistence, cfg *Config) *Client {
	readBufSize = verifB
	if cfg.Dialer == nil {
		d := &verifDialer{}
		cfg.Dialer = d.dial
	}
	// as InitSession/AdoptSession do: the client never talks to a store directly
	if vs, ok := store.(*verifStore); ok {
		store = &ruggedPersistence{Persistence: vs}
	}
	return newClient(store, cfg)
}

// verifGoOnline puts c into the state connect() leaves behind on success.
func verifGoOnline(c *Client, conn *verifConn) {
	<-c.writeSem
	c.writeSem <- conn
	<-c.connSem
	c.connSem <- conn
	c.readConn = conn
	c.bufr = bufio.NewReaderSize(conn, readBufSize)
	blockSignalChan(c.offlineSig)
	clearSignalChan(c.onlineSig)
}

// verifSetWriteToken replaces the write token (connPending / connDown / live).
func verifSetWriteToken(c *Client, tok connSignal) {
	<-c.writeSem
	c.writeSem <- tok
}

func verifClosedChan() chan struct{} {
	ch := make(chan struct{})
	close(ch)
	return ch
}

func verifIsReleased(ch <-chan struct{}) bool {
	select {
	case <-ch:
		return true
	default:
		return false
	}
}

// verifSplit cuts a byte log into MQTT packets by their fixed headers.
// It returns the complete packets and the trailing incomplete bytes; ok is
// false when a remaining-length field is malformed.
func verifSplit(b []byte) (packets [][]byte, rest []byte, ok bool) {
	for len(b) > 0 {
		if len(b) < 2 {
			return packets, b, true
		}
		size := 0
		i := 1
		for shift := uint(0); ; shift += 7 {
			if i >= len(b) {
				return packets, b, true
			}
			if shift > 21 {
				return packets, b, false
			}
			c := b[i]
			i++
			size |= int(c&0x7f) << shift
			if c&0x80 == 0 {
				break
			}
		}
		if len(b) < i+size {
			return packets, b, true
		}
		packets = append(packets, b[:i+size])
		b = b[i+size:]
	}
	return packets, nil, true
}

// verifTokensHome: every ownership token is back in its single-slot channel
// (DESIGN 4.2): a function that returns while holding one blocks everybody
// else for ever.
func verifTokensHome(c *Client, tag string) {
	verifAssert(len(c.connSem) == 1, tag+": connSem token not returned (Close, Disconnect and the next connect would block for ever)")
	verifAssert(len(c.writeSem) == 1, tag+": writeSem token not returned (every writer would block for ever)")
	verifAssert(len(c.atLeastOnce.seqSem) == 1, tag+": at-least-once seqSem token not returned (publishes and the next connect would block for ever)")
	verifAssert(len(c.exactlyOnce.seqSem) == 1, tag+": exactly-once seqSem token not returned (publishes and the next connect would block for ever)")
}
