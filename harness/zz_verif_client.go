//go:build verif

package mqtt

// Builders of client pre-states and observers shared by the harnesses.

import (
	"bufio"
	"context"
	"net"
)

// verifB is the scaled read-buffer size (bufio's minimum is 16).
const verifB = 16

func verifNewClient(store Persistence, cfg *Config) *Client {
	readBufSize = verifB
	if cfg.Dialer == nil {
		d := &verifDialer{}
		cfg.Dialer = d.dial
	}
	// as InitSession/AdoptSession do: the client never talks to a store directly
	if vs, ok := store.(*verifStore); ok {
		store = &ruggedPersistence{Persistence: vs}
	}
	return newClient(store, cfg)
}

// verifGoOnline puts c into the state connect() leaves behind on success.
func verifGoOnline(c *Client, conn *verifConn) {
	<-c.writeSem
	c.writeSem <- conn
	<-c.connSem
	c.connSem <- conn
	c.readConn = conn
	c.bufr = bufio.NewReaderSize(conn, readBufSize)
	blockSignalChan(c.offlineSig)
	clearSignalChan(c.onlineSig)
}

// verifSetWriteToken replaces the write token (connPending / connDown / live).
func verifSetWriteToken(c *Client, tok connSignal) {
	<-c.writeSem
	c.writeSem <- tok
}

func verifClosedChan() chan struct{} {
	ch := make(chan struct{})
	close(ch)
	return ch
}

func verifIsReleased(ch <-chan struct{}) bool {
	select {
	case <-ch:
		return true
	default:
		return false
	}
}

// verifSplit cuts a byte log into MQTT packets by their fixed headers.
// It returns the complete packets and the trailing incomplete bytes; ok is
// false when a remaining-length field is malformed.
func verifSplit(b []byte) (packets [][]byte, rest []byte, ok bool) {
	for len(b) > 0 {
		if len(b) < 2 {
			return packets, b, true
		}
		size := 0
		i := 1
		for shift := uint(0); ; shift += 7 {
			if i >= len(b) {
				return packets, b, true
			}
			if shift > 21 {
				return packets, b, false
			}
			c := b[i]
			i++
			size |= int(c&0x7f) << shift
			if c&0x80 == 0 {
				break
			}
		}
		if len(b) < i+size {
			return packets, b, true
		}
		packets = append(packets, b[:i+size])
		b = b[i+size:]
	}
	return packets, nil, true
}

// verifTokensHome: every ownership token is back in its single-slot channel
// (DESIGN 4.2): a function that returns while holding one blocks everybody
// else for ever.
func verifTokensHome(c *Client, tag string) {
	verifAssert(len(c.connSem) == 1, tag+": connSem token not returned (Close, Disconnect and the next connect would block for ever)")
	verifAssert(len(c.writeSem) == 1, tag+": writeSem token not returned (every writer would block for ever)")
	verifAssert(len(c.atLeastOnce.seqSem) == 1, tag+": at-least-once seqSem token not returned (publishes and the next connect would block for ever)")
	verifAssert(len(c.exactlyOnce.seqSem) == 1, tag+": exactly-once seqSem token not returned (publishes and the next connect would block for ever)")
}

// verifNextConnectionWorks: the client went offline after a failure; a healthy
// broker is available now. The next ReadSlices must dial once, connect, and
// return the first message of the new connection exactly as sent — nothing of
// the failed connection (a half-read packet, a parked big message) may leak
// into the new stream.
func verifNextConnectionWorks(c *Client, store *verifStore, tag string) {
	verifNextConnection(c, store, tag)
}

// verifNextConnection does the same and returns what the client wrote on the
// new connection after its CONNECT packet.
func verifNextConnection(c *Client, store *verifStore, tag string) (afterCONNECT []byte) {
	_, after := verifNextConnection2(c, store, tag, true)
	return after
}

// verifNextConnection2 also returns the CONNECT packet; sessionPresent selects
// the flag of the broker's CONNACK.
func verifNextConnection2(c *Client, store *verifStore, tag string, sessionPresent bool) (connect, afterCONNECT []byte) {
	if store.find(clientIDKey) < 0 {
		store.put(clientIDKey, verifRecord([]byte{'c'}, 1))
	}
	saved := store.faults
	store.faults = 0
	conn2 := &verifInConn{}
	sp := byte(0)
	if sessionPresent {
		sp = 1
	}
	conn2.in = []byte{0x20, 2, sp, 0, 0x30, 4, 0, 1, 'z', 'y'}
	conn2.rEOF = true
	dials := 0
	c.Config.Dialer = func(ctx context.Context) (net.Conn, error) {
		dials++
		return conn2, nil
	}
	msg, topic, err := c.ReadSlices()
	verifAssert(err == nil, tag+": after the failure, the next ReadSlices against a healthy broker fails (the client does not recover)")
	if err == nil {
		verifAssert(string(topic) == "z" && string(msg) == "y", tag+": the first message of the new connection is not returned as sent (bytes of the new stream were skipped or misread)")
	}
	verifAssert(dials == 1, tag+": the next ReadSlices did not dial exactly once")
	store.faults = saved
	packets, rest, ok := verifSplit(conn2.wlog)
	verifAssert(ok && len(rest) == 0 && len(packets) >= 1, tag+": the new connection does not start with whole packets")
	if !ok || len(packets) == 0 {
		return nil, nil
	}
	verifAssert(packets[0][0] == 0x10, tag+": the new connection does not start with CONNECT")
	for _, p := range packets[1:] {
		afterCONNECT = append(afterCONNECT, p...)
	}
	return packets[0], afterCONNECT
}
