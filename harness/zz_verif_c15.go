//go:build verif

package mqtt

import (
	"encoding"
	"hash/fnv"
	"net"
)

// C15 — stored records round-trip; single-byte damage always detected.

func verifFNVFrom(state uint32) interface {
	Write([]byte) (int, error)
	Sum32() uint32
} {
	h := fnv.New32a()
	err := h.(encoding.BinaryUnmarshaler).UnmarshalBinary([]byte{'f', 'n', 'v', 2, byte(state >> 24), byte(state >> 16), byte(state >> 8), byte(state)})
	verifAssert(err == nil, "C15: cannot seed the real FNV-1a state")
	return h
}

// L15.a: one step of the real hash/fnv sum32a.Write from an arbitrary state
// is injective in the state (same byte) and in the byte (same state).
func verifH_C15_hashstep() {
	h1 := verifU32("h1")
	h2 := verifU32("h2")
	c1 := verifU8("c1")
	c2 := verifU8("c2")
	a := verifFNVFrom(h1)
	b := verifFNVFrom(h2)
	a.Write([]byte{c1})
	b.Write([]byte{c2})
	r1, r2 := a.Sum32(), b.Sum32()
	// the step is T(h,c) = (h ^ c) * 16777619 (documented FNV-1a)
	verifAssert(r1 == (h1^uint32(c1))*16777619, "C15: hash step is not FNV-1a")
	if c1 == c2 {
		if h1 != h2 {
			verifAssert(r1 != r2, "C15: two hash states collapse under the same byte")
			verifReach("state-injective")
		}
	} else if h1 == h2 {
		verifAssert(r1 != r2, "C15: two different bytes give the same next state")
		verifReach("byte-injective")
	}
}

// Write over k bytes is k applications of the step (structural).
func verifH_C15_hashfold() {
	k := verifChoose("k", 5)
	p := verifBytes("p", k)
	h0 := verifU32("h0")
	a := verifFNVFrom(h0)
	a.Write(p)
	want := h0
	for _, c := range p {
		want = (want ^ uint32(c)) * 16777619
	}
	verifAssert(a.Sum32() == want, "C15: Write is not the fold of the step function")
	verifReach("end")
}

// L15.b: layout and round trip through the rugged store.
func verifH_C15_roundtrip() {
	n1 := verifChoose("n1", verifParam("maxbuf", 3)+1)
	n2 := verifChoose("n2", verifParam("maxbuf", 3)+1)
	b1 := verifBytes("b1", n1)
	b2 := verifBytes("b2", n2)
	packet := append(append([]byte{}, b1...), b2...)
	store := &verifStore{}
	r := &ruggedPersistence{Persistence: store}
	seq0 := verifU64("seq0")
	r.seqNo.Store(seq0)
	key := uint(verifU32("key")) & 0x1ffff
	var bufs net.Buffers
	switch verifChoose("shape", 3) {
	case 0:
		bufs = net.Buffers{packet}
	case 1:
		bufs = net.Buffers{b1, b2}
	case 2:
		bufs = net.Buffers{b1, nil, b2}
	}
	err := r.Save(key, bufs)
	verifAssert(err == nil, "C15: Save failed without a store fault")
	i := store.find(key)
	verifAssert(i >= 0, "C15: nothing stored under the key")
	stored := store.slots[i].val
	want := verifRecord(packet, seq0+1)
	verifAssert(verifBytesEq(stored, want), "C15: stored value is not packet + LE sequence number + BE FNV-1a")
	got, err := r.Load(key)
	verifAssert(err == nil, "C15: Load reports corruption for an intact record")
	verifAssert(verifBytesEq(got, packet), "C15: record does not round-trip")
	p2, s2, err := decodeValue(stored)
	verifAssert(err == nil, "C15: decodeValue error on an intact record")
	verifAssert(s2 == seq0+1, "C15: sequence number does not round-trip")
	verifAssert(verifBytesEq(p2, packet), "C15: packet does not round-trip")
	verifReach("end")
}

// L15.c (structure): decodeValue accepts exactly when the FNV-1a fold over
// everything but the last four bytes equals those four bytes read big endian,
// for an arbitrary buffer; shorter than 12 bytes is always refused.
func verifH_C15_decodespec() {
	n := verifChoose("n", verifParam("maxlen", 16)+1)
	buf := verifBytes("b", n)
	_, seq, err := decodeValue(buf)
	if n < 12 {
		verifAssert(err != nil, "C15: value shorter than 12 bytes accepted")
		verifReach("short")
		return
	}
	h := uint32(2166136261)
	for _, c := range buf[:n-4] {
		h = (h ^ uint32(c)) * 16777619
	}
	sum := uint32(buf[n-4])<<24 | uint32(buf[n-3])<<16 | uint32(buf[n-2])<<8 | uint32(buf[n-1])
	verifAssert((err == nil) == (h == sum), "C15: decodeValue does not compare FNV-1a(data) with the big-endian trailer")
	if err == nil {
		var want uint64
		for i := 0; i < 8; i++ {
			want |= uint64(buf[n-12+i]) << (8 * uint(i))
		}
		verifAssert(seq == want, "C15: sequence number is not the little-endian field before the sum")
		verifReach("accepted")
	} else {
		verifReach("refused")
	}
}

// L15.c (checksum field): damage inside the 4-byte sum is always detected.
func verifH_C15_damagesum() {
	n := verifChoose("n", verifParam("maxpacket", 3)+1)
	packet := verifBytes("p", n)
	seq := verifU64("seq")
	rec := verifRecord(packet, seq)
	pos := len(rec) - 4 + verifChoose("pos", 4)
	d := verifU8("d")
	verifAssume(d != rec[pos])
	bad := append([]byte{}, rec...)
	bad[pos] = d
	verifDamageDetected(bad)
}

func verifDamageDetected(bad []byte) {
	_, _, err := decodeValue(bad)
	verifAssert(err != nil, "C15: single-byte damage not detected")
	store := &verifStore{}
	store.put(7, bad)
	r := &ruggedPersistence{Persistence: store}
	v, err := r.Load(7)
	verifAssert(err != nil, "C15: rugged Load accepts a damaged record")
	verifAssert(v == nil, "C15: rugged Load returns bytes of a damaged record")
	verifReach("end")
}

// L15.c (data): damage in one of the last `depth` hashed bytes, real hash,
// decided directly by the solver (bit-blasted multiplications).
func verifH_C15_damagedata() {
	n := verifChoose("n", verifParam("maxpacket", 2)+1)
	packet := verifBytes("p", n)
	seq := verifU64("seq")
	rec := verifRecord(packet, seq)
	data := len(rec) - 4
	depth := verifParam("depth", 3)
	if depth > data {
		depth = data
	}
	pos := data - 1 - verifChoose("back", depth)
	d := verifU8("d")
	verifAssume(d != rec[pos])
	bad := append([]byte{}, rec...)
	bad[pos] = d
	verifDamageDetected(bad)
}

func verifH_C15_truncation() {
	n := verifChoose("n", 4)
	packet := verifBytes("p", n)
	seq := verifU64("seq")
	rec := verifRecord(packet, seq)
	cut := verifChoose("cut", 12) // keep 0..11 bytes
	short := rec[:cut]
	_, _, err := decodeValue(short)
	verifAssert(err != nil, "C15: value shorter than 12 bytes accepted")
	store := &verifStore{}
	store.put(7, short)
	r := &ruggedPersistence{Persistence: store}
	v, err := r.Load(7)
	verifAssert(err != nil, "C15: rugged Load accepts a truncated record")
	verifAssert(v == nil, "C15: rugged Load returns bytes of a truncated record")
	verifReach("short")
}
