//go:build verif

package mqtttest

import "time"

func verifNativeSleep() { time.Sleep(20 * time.Millisecond) }
