//go:build verif

package mqtttest

import (
	"sync"
	"time"
)

var verifTurnMu sync.Mutex
var verifTurnPos int

func verifNativeSleep() { time.Sleep(20 * time.Millisecond) }

func verifNativeTurn(tag string) {
	if len(verifVec.Yields) == 0 {
		time.Sleep(20 * time.Millisecond)
		return
	}
	deadline := time.Now().Add(500 * time.Millisecond)
	for {
		verifTurnMu.Lock()
		if verifTurnPos >= len(verifVec.Yields) {
			verifTurnMu.Unlock()
			return
		}
		if verifVec.Yields[verifTurnPos] == tag {
			verifTurnPos++
			verifTurnMu.Unlock()
			// let the released goroutine run up to its next blocking point before the next turn
			time.Sleep(5 * time.Millisecond)
			return
		}
		verifTurnMu.Unlock()
		if time.Now().After(deadline) {
			return
		}
		time.Sleep(time.Millisecond)
	}
}
