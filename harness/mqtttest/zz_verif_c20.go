//go:build verif

package mqtttest

import (
	"errors"
	"fmt"
	"testing"
	"time"

	"github.com/pascaldekloe/mqtt"
)

// C20 — mqtttest doubles.

type verifFatal struct{}

type verifTB struct {
	testing.TB
	failures int
	fatals   int
	cleanups []func()
}

func (t *verifTB) Helper()                                   {}
func (t *verifTB) Errorf(format string, args ...any)         { t.failures++ }
func (t *verifTB) Error(args ...any)                         { t.failures++ }
func (t *verifTB) Fatalf(format string, args ...any)         { t.failures++; t.fatals++; panic(verifFatal{}) }
func (t *verifTB) Fatal(args ...any)                         { t.failures++; t.fatals++; panic(verifFatal{}) }
func (t *verifTB) Cleanup(f func())                          { t.cleanups = append(t.cleanups, f) }
func (t *verifTB) Logf(format string, args ...any)           {}
func (t *verifTB) Log(args ...any)                           {}
func (t *verifTB) runCleanups() {
	for i := len(t.cleanups) - 1; i >= 0; i-- {
		t.cleanups[i]()
	}
}

func verifEq(a, b []byte) int {
	if len(a) != len(b) {
		return 0
	}
	var d byte
	for i := range a {
		d |= a[i] ^ b[i]
	}
	return verifB2I(d == 0)
}

func verifClosed() chan struct{} {
	ch := make(chan struct{})
	close(ch)
	return ch
}

var verifErrX = errors.New("verif: scripted error")

// L20.a
func verifH_C20_publishmock() {
	nw := verifChoose("want", 3)
	var want []Transfer
	for i := 0; i < nw; i++ {
		tr := Transfer{Message: verifBytes("wm", verifChoose("wmlen", 2)), Topic: string(verifBytes("wt", 1))}
		if verifChoose("werr", 2) == 1 {
			tr.Err = verifErrX
		}
		want = append(want, tr)
	}
	tb := &verifTB{}
	pub := NewPublishMock(tb, want...)
	nc := verifChoose("calls", verifParam("maxcalls", 3)+1)
	mism := 0
	counted := 0
	for i := 0; i < nc; i++ {
		msg := verifBytes("m", verifChoose("mlen", 2))
		topic := verifBytes("t", 1)
		var quit chan struct{}
		switch verifChoose("quit", 3) {
		case 1:
			quit = make(chan struct{})
		case 2:
			quit = verifClosed()
		}
		failsBefore := tb.failures
		err := pub(quit, msg, string(topic))
		if quit != nil {
			select {
			case <-quit:
				verifAssert(err == mqtt.ErrCanceled, "C20: publish mock with a closed quit must return ErrCanceled")
				verifAssert(tb.failures == failsBefore, "C20: canceled call flagged")
				continue
			default:
			}
		}
		if counted >= nw {
			mism |= 1
			verifAssert(tb.failures > failsBefore, "C20: unwanted publish not flagged")
		} else {
			w := want[counted]
			ok := verifEq(msg, w.Message) & verifEq(topic, []byte(w.Topic))
			mism |= 1 - ok
			verifAssert((tb.failures > failsBefore) == (ok == 0), "C20: publish mock flags a matching call or misses a deviation in message or topic")
			verifAssert(err == w.Err, "C20: publish mock does not return the scripted error")
		}
		counted++
	}
	tb.runCleanups()
	if counted < nw {
		mism |= 1
	}
	verifAssert((tb.failures > 0) == (mism != 0), "C20: publish mock failure report differs from 'some invocation deviates or calls are missing'")
	verifReach("end")
}

// L20.b
func verifH_C20_subscribemock() {
	nw := verifChoose("want", 3)
	var want []Filter
	for i := 0; i < nw; i++ {
		var f Filter
		k := 1 + verifChoose("wn", 2)
		a := string(verifBytes("wf", 1))
		f.Topics = append(f.Topics, a)
		if k == 2 {
			b := string(verifBytes("wf", 1))
			verifAssume(a != b)
			f.Topics = append(f.Topics, b)
		}
		if verifChoose("werr", 2) == 1 {
			f.Err = verifErrX
		}
		want = append(want, f)
	}
	tb := &verifTB{}
	var sub func(quit <-chan struct{}, topicFilters ...string) error
	if verifChoose("un", 2) == 1 {
		sub = NewUnsubscribeMock(tb, want...)
	} else {
		sub = NewSubscribeMock(tb, want...)
	}
	nc := verifChoose("calls", verifParam("maxcalls", 3)+1)
	mism := 0
	counted := 0
	for i := 0; i < nc; i++ {
		k := 1 + verifChoose("n", 2)
		var fs []string
		for j := 0; j < k; j++ {
			fs = append(fs, string(verifBytes("f", 1)))
		}
		var quit chan struct{}
		if verifChoose("quit", 2) == 1 {
			quit = verifClosed()
		}
		failsBefore := tb.failures
		err := sub(quit, fs...)
		if quit != nil {
			verifAssert(err == mqtt.ErrCanceled, "C20: subscribe mock with a closed quit must return ErrCanceled")
			verifAssert(tb.failures == failsBefore, "C20: canceled call flagged")
			continue
		}
		if counted >= nw {
			mism |= 1
			verifAssert(tb.failures > failsBefore, "C20: unwanted subscribe not flagged")
		} else {
			w := want[counted].Topics
			same := 0
			if len(w) == len(fs) {
				if len(w) == 1 {
					same = verifB2I(w[0] == fs[0])
				} else {
					same = (verifB2I(w[0] == fs[0]) & verifB2I(w[1] == fs[1])) | (verifB2I(w[0] == fs[1]) & verifB2I(w[1] == fs[0]))
				}
			}
			mism |= 1 - same
			verifAssert((tb.failures > failsBefore) == (same == 0), "C20: subscribe mock flags a matching filter set or misses a deviation")
			verifAssert(err == want[counted].Err, "C20: subscribe mock does not return the scripted error")
		}
		counted++
	}
	tb.runCleanups()
	if counted < nw {
		mism |= 1
	}
	verifAssert((tb.failures > 0) == (mism != 0), "C20: subscribe mock failure report differs from 'some invocation deviates or calls are missing'")
	verifReach("end")
}

// L20.c
func verifH_C20_stubs() {
	fix := Transfer{Message: verifBytes("m", 2), Topic: string(verifBytes("t", 2)), Err: verifErrX}
	orig := append([]byte{}, fix.Message...)
	stub := NewReadSlicesStub(fix)
	m, tp, err := stub()
	verifAssert(err == verifErrX, "C20: ReadSlices stub does not return the fixed error")
	verifAssert(verifEq(m, orig) == 1 && verifEq(tp, []byte(fix.Topic)) == 1, "C20: ReadSlices stub does not return the fixture")
	m[0] ^= 0xff
	tp[0] ^= 0xff
	m2, tp2, _ := stub()
	verifAssert(verifEq(m2, orig) == 1, "C20: ReadSlices stub hands out the fixture itself (not a private copy)")
	verifAssert(verifEq(tp2, []byte(fix.Topic)) == 1, "C20: ReadSlices stub topic is not a private copy")
	verifAssert(verifEq(fix.Message, orig) == 1, "C20: writing through the returned slice changed the fixture")

	tb := &verifTB{}
	mock := NewReadSlicesMock(tb, fix)
	a, _, e1 := mock()
	verifAssert(e1 == verifErrX && verifEq(a, orig) == 1, "C20: ReadSlices mock does not serve the transfers in order")
	verifAssert(tb.failures == 0, "C20: wanted ReadSlices flagged")
	_, _, e2 := mock()
	verifAssert(e2 != nil && tb.failures == 1, "C20: unwanted ReadSlices not flagged")

	ps := NewPublishStub(verifErrX)
	verifAssert(ps(nil, nil, "t") == verifErrX, "C20: publish stub does not return the fixed error")
	verifAssert(ps(make(chan struct{}), nil, "t") == verifErrX, "C20: open quit changes the publish stub")
	verifAssert(ps(verifClosed(), nil, "t") == mqtt.ErrCanceled, "C20: publish stub with a closed quit must return ErrCanceled")
	ss := NewSubscribeStub(verifErrX)
	verifAssert(ss(nil, "a") == verifErrX, "C20: subscribe stub does not return the fixed error")
	verifAssert(ss(verifClosed(), "a") == mqtt.ErrCanceled, "C20: subscribe stub with a closed quit must return ErrCanceled")
	us := NewUnsubscribeStub(nil)
	verifAssert(us(nil, "a") == nil, "C20: unsubscribe stub does not return the fixed error")
	verifAssert(us(verifClosed(), "a") == mqtt.ErrCanceled, "C20: unsubscribe stub with a closed quit must return ErrCanceled")
	verifReach("end")
}

// L20.d
func verifH_C20_exchange() {
	n := verifChoose("script", 4)
	var script []error
	var kinds []int
	for i := 0; i < n; i++ {
		k := verifChoose("entry", 4)
		kinds = append(kinds, k)
		switch k {
		case 0:
			script = append(script, verifErrX)
		case 1:
			script = append(script, fmt.Errorf("%w; wrapped", mqtt.ErrClosed))
		case 2:
			script = append(script, ExchangeBlock{})
		case 3:
			script = append(script, ExchangeBlock{Delay: time.Millisecond})
		}
	}
	misuse := false
	for i, k := range kinds {
		if (k == 1 || k == 2) && i+1 < n {
			misuse = true
		}
	}
	panicked := false
	var stub func(message []byte, topic string) (<-chan error, error)
	func() {
		defer func() {
			if recover() != nil {
				panicked = true
			}
		}()
		stub = NewPublishExchangeStub(nil, script...)
	}()
	verifAssert(panicked == misuse, "C20: exchange stub constructor panics exactly on the documented misuse")
	if panicked {
		verifReach("misuse")
		return
	}
	ch, err := stub(nil, "t")
	verifAssert(err == nil && ch != nil, "C20: exchange stub refuses")
	for i, k := range kinds {
		if k == 0 || k == 1 {
			e, ok := <-ch
			verifAssert(ok, "C20: exchange closed before all scripted errors were delivered")
			verifAssert(e == script[i], "C20: exchange delivers scripted errors out of order")
		}
	}
	// let the stub's goroutine finish
	verifQuiesce()
	open := n > 0 && (kinds[n-1] == 1 || kinds[n-1] == 2)
	select {
	case _, ok := <-ch:
		verifAssert(!ok, "C20: exchange delivers more than the script")
		verifAssert(!open, "C20: exchange closed although the script ends in ErrClosed or an indefinite block")
		verifReach("closed")
	default:
		verifAssert(open, "C20: exchange left open although the script ended")
		verifReach("left-open")
	}
}
