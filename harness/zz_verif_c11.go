//go:build verif

package mqtt

import "errors"

// C11 — every request completes and gets its own response.

// L11.b: SUBACK/UNSUBACK with an arbitrary body against several registered
// requests: only the addressed request is answered, with its own filters.
func verifH_C11_correlation() {
	c := verifNewClient(&verifStore{}, &Config{})
	conn := &verifConn{}
	verifGoOnline(c, conn)
	type req struct {
		id      uint16
		done    chan error
		filters []string
	}
	var reqs []req
	n := 1 + verifChoose("requests", 2)
	for i := 0; i < n; i++ {
		r := req{done: make(chan error, 1)}
		k := verifU16("slot") & unorderedIDMask
		if verifChoose("sub", 2) == 1 {
			r.id = k | subscribeIDSpace
			if verifChoose("nfilters", 2) == 1 {
				r.filters = []string{"a" + string(rune('0'+i)), "b" + string(rune('0'+i))}
			} else {
				r.filters = []string{"c" + string(rune('0'+i))}
			}
		} else {
			r.id = k | unsubscribeIDSpace
		}
		for _, o := range reqs {
			verifAssume(o.id != r.id)
		}
		reqs = append(reqs, r)
		c.unorderedTxs.perPacketID[r.id] = unorderedCallback{done: r.done, topicFilters: r.filters}
	}
	suback := verifChoose("suback", 2) == 1
	bn := 2
	if suback {
		bn = 3 + verifChoose("codes", 2)
	}
	body := verifBytes("body", bn)
	id := uint16(body[0])<<8 | uint16(body[1])
	c.peek = body
	var err error
	if suback {
		err = c.onSUBACK()
	} else {
		err = c.onUNSUBACK()
	}
	addressed := -1
	for i, r := range reqs {
		if r.id == id {
			addressed = i
		}
	}
	for i, r := range reqs {
		st, e := verifExState(r.done)
		if i != addressed {
			verifAssert(st == 0, "C11: a response was handed to another caller")
			_, still := c.unorderedTxs.perPacketID[r.id]
			verifAssert(still, "C11: a response removed another caller's slot")
			continue
		}
		isSub := r.filters != nil
		if isSub != suback {
			// SUBACK for an unsubscribe identifier (or the reverse) is a space mismatch
			verifAssert(err != nil, "C13: acknowledgement of the wrong kind accepted")
			verifAssert(st == 0, "C11: acknowledgement of the wrong kind completed a request")
			continue
		}
		if !suback {
			verifAssert(err == nil && st == 1, "C11: UNSUBACK did not complete its request")
			verifReach("unsuback")
			continue
		}
		codes := body[2:]
		legal := true
		fails := 0
		for _, code := range codes {
			if code != 0 && code != 1 && code != 2 && code != 0x80 {
				legal = false
			}
			if code == 0x80 {
				fails++
			}
		}
		if !legal {
			verifAssert(err != nil && st == 0, "C13: illegal SUBACK return code accepted")
			continue
		}
		if len(codes) != len(r.filters) {
			verifAssert(err != nil, "C13: SUBACK with a wrong number of return codes accepted")
			verifAssert(st == 2 && (errors.Is(e, ErrBreak) || errors.Is(e, ErrSubmit)), "C14: subscriber got an undocumented error for a malformed SUBACK")
			verifReach("count-mismatch")
			continue
		}
		verifAssert(err == nil, "C11: well-formed SUBACK refused")
		if fails == 0 {
			verifAssert(st == 1, "C11: all-granted SUBACK did not complete its request with nil")
			verifReach("granted")
		} else {
			var se SubscribeError
			verifAssert(st >= 2 && errors.As(e, &se), "C11: failed filters not reported as SubscribeError")
			verifAssert(len(se) == fails, "C11: SubscribeError does not list exactly the failed filters")
			j := 0
			for k, code := range codes {
				if code == 0x80 {
					verifAssert(se[j] == r.filters[k], "C11: SubscribeError lists another request's filter or the wrong order")
					j++
				}
			}
			verifReach("failed-filters")
		}
	}
	if addressed < 0 {
		if err == nil {
			verifReach("unsolicited-tolerated")
		}
	}
}

// L11.d / F7: Ping A's submission fails; before A cleans up, the read routine
// goes offline (releasing A) and Ping B installs its callback. B must still
// get an answer.
func verifH_C11_pingslot() {
	c := verifNewClient(&verifStore{}, &Config{})
	connA := &verifConn{closed: true} // every write fails
	verifGoOnline(c, connA)
	conn2 := &verifConn{}
	var errB error
	bDone := false
	fired := false
	verifHooks = func(point string) {
		if point != "ping:submit-failed" || fired {
			return
		}
		fired = true
		// the read routine notices the closed connection
		c.toOffline()
		// another goroutine pings
		go func() {
			errB = c.Ping(nil)
			bDone = true
		}()
		verifQuiesce() // B installed its callback and waits for the connection
	}
	errA := c.Ping(nil)
	verifHooks = nil
	if !fired {
		verifAssert(errA == nil || true, "")
		// A's write succeeded: nobody answers in this harness
		return
	}
	verifAssert(errA != nil, "C11: Ping A reports success after a failed submission")
	// reconnect, B's PINGREQ goes out, the broker answers
	verifGoOnline(c, conn2)
	verifQuiesce()
	c.peek = nil
	c.onPINGRESP()
	verifQuiesce()
	if !bDone {
		// one more chance: connection loss must release every waiter
		c.toOffline()
		verifQuiesce()
	}
	verifAssert(bDone, "C11: Ping B never returns: its callback was removed by Ping A's failure path")
	_ = errB
	verifReach("end")
}

// Connection loss racing with requests: the read routine goes offline while a
// publish is inside its (slow) write and a Subscribe and a Ping are being
// submitted. Whatever the interleaving, every request returns: broken by
// toOffline, failed by its own write, or refused once the reconnect failed.
func verifH_C11_offlinerace() {
	verifPreempt(verifParam("preempt", 0))
	if verifParam("preempt", 0) > 0 {
		// a preempted goroutine may be left waiting while a poller spins: such unfair
		// schedules are cut at the unwinding bound (wedges are C10's subject)
		verifOnUnwind(1)
	}
	c := verifNewClient(&verifStore{}, &Config{})
	conn := &verifConn{slow: true}
	verifGoOnline(c, conn)
	r1, r2, r3, r4 := false, false, false, false
	var e2, e3 error
	go func() { c.Publish(nil, []byte{'x'}, "a"); r1 = true }()
	if verifParam("sub", 1) == 1 {
		go func() { e2 = c.Subscribe(nil, "s"); r2 = true }()
	} else {
		e2, r2 = ErrDown, true
	}
	if verifParam("ping", 0) == 1 {
		go func() { e3 = c.Ping(nil); r3 = true }()
	} else {
		e3, r3 = ErrDown, true
	}
	go func() { c.toOffline(); r4 = true }()
	verifQuiesce()
	verifAssert(r4, "C10: toOffline does not return")
	// the reconnect attempt fails: requests that waited for it are refused
	tok := <-c.writeSem
	if tok == connPending {
		c.writeSem <- connDown
	} else {
		c.writeSem <- tok
	}
	verifQuiesce()
	verifAssert(r1, "C11: Publish waits forever across a connection loss")
	verifAssert(r2, "C11: Subscribe waits forever: it was submitted on the lost connection and nobody released it")
	verifAssert(r3, "C11: Ping waits forever: it was submitted on the lost connection and nobody released it")
	verifAssert(e2 != nil && e3 != nil, "C11: request reports success without a response")
	verifAssert(len(c.unorderedTxs.perPacketID) == 0, "C11: a slot is left registered after its request returned")
	verifReach("end")
}
