//go:build verif

package mqtt

import "errors"

// C01/C03/C05/C17 — outbound state machines, one operation from an arbitrary
// INV state, observed through resend.

// window shapes: the level under test gets 0..W entries, the other level 0..1.
func verifWindows(level int) (w1, wr, wp int) {
	W := verifParam("W", 2)
	if level == 1 {
		w1 = verifChoose("w1", W+1)
		wp = verifChoose("other", 2)
		return
	}
	w1 = verifChoose("other", 2)
	wr = verifChoose("wr", W+1)
	wp = verifChoose("wp", W+1-wr)
	return
}

// L01.a / L17.b / L05.b: accepting one persisted publish.
func verifH_C01_accept() {
	level := 1 + verifChoose("level", 2)
	w1, wr, wp := verifWindows(level)
	inflight := w1
	if level == 2 {
		inflight = wr + wp
	}
	full := verifChoose("full", 2) == 1
	k := inflight + 1
	if full {
		k = inflight
	}
	k1, k2 := 4, 4
	if level == 1 {
		k1 = k
	} else {
		k2 = k
	}
	o := verifOutState(k1, k2, w1, wr, wp, verifParam("storefaults", 1))
	c := o.c
	connState := verifChoose("conn", 3)
	switch connState {
	case 0:
		o.online(verifParam("wfaults", 2))
	case 2:
		verifSetWriteToken(c, connDown)
	}
	msg := verifBytes("msg", verifChoose("msglen", 2))
	retained := verifChoose("retained", 2) == 1

	out := c.atLeastOnce
	if level == 2 {
		out = c.exactlyOnce
	}
	pre := <-out.seqSem
	out.seqSem <- pre
	backlog := pre.submitN < pre.acceptN
	recordsBefore := o.store.count()
	sigmaBefore := o.rugged.seqNo.Load()

	var ex <-chan error
	var err error
	switch {
	case level == 1 && !retained:
		ex, err = c.PublishAtLeastOnce(msg, "u")
	case level == 1:
		ex, err = c.PublishAtLeastOnceRetained(msg, "u")
	case !retained:
		ex, err = c.PublishExactlyOnce(msg, "u")
	default:
		ex, err = c.PublishExactlyOnceRetained(msg, "u")
	}
	post := <-out.seqSem
	out.seqSem <- post

	wire := 0
	if o.conn != nil {
		wire = len(o.conn.wlog)
	}
	if full {
		verifAssert(err != nil, "C17: publish accepted beyond the configured maximum")
		verifAssert(errors.Is(err, ErrMax), "C17: excess publish not refused with ErrMax")
		verifAssert(len(o.store.ops) == 0, "C17: refused publish touched the store")
		verifAssert(wire == 0, "C14: refused publish wrote bytes")
		verifAssert(post.acceptN == pre.acceptN, "C17: refused publish consumed an identifier")
		verifAssert(ex == nil, "C14: refused publish returned an exchange channel")
		verifReach("refused-max")
		if verifParam("reconnect", 1) == 1 {
			o.reconnect("C01")
		}
		o.observe("C01")
		return
	}
	if err != nil {
		// only a failed Save may refuse a valid publish below the maximum
		verifAssert(!errors.Is(err, ErrMax), "C17: ErrMax below the configured maximum")
		verifAssert(errors.Is(err, verifErrStore), "C14: persisted publish failed with an undocumented error")
		verifAssert(o.store.count() == recordsBefore, "C01: failed publish left a record behind")
		verifAssert(wire == 0, "C14: failed publish wrote bytes")
		verifAssert(post.acceptN == pre.acceptN, "C17: failed publish consumed an identifier")
		verifAssert(ex == nil, "C14: failed publish returned an exchange channel")
		verifReach("save-failed")
		if verifParam("reconnect", 1) == 1 {
			o.reconnect("C01")
		}
		o.observe("C01")
		return
	}
	// accepted
	verifAssert(ex != nil, "C01: accepted publish without exchange channel")
	var id uint
	if level == 1 {
		id = verifID1(pre.acceptN)
	} else {
		id = verifID2(pre.acceptN)
	}
	verifAssert(id&publishIDMask == pre.acceptN&publishIDMask, "C17: identifier is not the next in sequence")
	verifAssert(post.acceptN == pre.acceptN+1, "C17: sequence did not advance by one")
	want := verifRefPublish(false, level, retained, []byte{'u'}, uint16(id), msg)
	slot := o.store.find(id)
	verifAssert(slot >= 0, "C01: accepted publish has no record under its identifier")
	verifAssert(o.store.count() == recordsBefore+1, "C17: identifier of an in-flight transfer reused (record overwritten) or extra record")
	verifAssert(verifBytesEq(o.store.slots[slot].val, verifRecord(want, sigmaBefore+1)), "C01: stored record is not the stamped packet with the next storage sequence number")

	st, exErr := verifExState(ex)
	e := verifEntry{id: id, packet: want}
	if connState != 0 || backlog {
		verifAssert(wire == 0, "C05: new publish written although offline or behind a backlog (would overtake stored ones)")
		verifAssert(st == 2, "C01: enqueued-offline publish must report exactly one error on its exchange")
		verifAssert(errors.Is(exErr, ErrDown), "C01: enqueued-offline publish must report ErrDown")
		verifAssert(post.submitN == pre.submitN, "C05: submit count advanced without a write")
		verifReach("enqueued-offline")
	} else {
		verifCheckWire(o.conn, want, exErr)
		if len(o.conn.wlog) == len(want) {
			verifAssert(st == 0, "C01: complete first transmission must leave the exchange empty and open")
			verifAssert(post.submitN == post.acceptN, "C05: submit count not advanced after a complete write")
			e.written = true
			verifReach("written")
		} else {
			verifAssert(st == 2, "C01: broken first transmission must report exactly one error")
			verifAssert(errors.Is(exErr, ErrSubmit), "C01: broken first transmission must report ErrSubmit")
			verifAssert(post.submitN == pre.submitN, "C05: submit count advanced after an incomplete write")
			verifAssert(o.conn.closed, "C08: connection left open after an incomplete packet")
			verifReach("write-broke")
		}
	}
	if level == 1 {
		o.q1 = append(o.q1, e)
	} else {
		o.q2 = append(o.q2, e)
	}
	if verifParam("reconnect", 1) == 1 {
		o.reconnect("C01")
	}
	o.observe("C01")
	o.drain("C01")
}

// L01.c / L03.a: one acknowledgement with an arbitrary 2-byte body.
func verifH_C01_ack() {
	kind := verifChoose("kind", 3) // 0 PUBACK, 1 PUBREC, 2 PUBCOMP
	level := 2
	if kind == 0 {
		level = 1
	}
	w1, wr, wp := verifWindows(level)
	o := verifOutState(4, 4, w1, wr, wp, verifParam("storefaults", 1))
	c := o.c
	o.online(verifParam("wfaults", 1))
	if verifParam("foreign", 0) == 1 {
		// another routine's write failed just before: connection closed by
		// that writer, write token left at connPending
		o.conn.Close()
		verifSetWriteToken(c, connPending)
	}
	body := verifBytes("ackid", 2)
	id := uint(body[0])<<8 | uint(body[1])
	c.peek = body
	firstWriteOps := -1
	o.conn.onWrite = func(vc *verifConn) {
		if firstWriteOps < 0 {
			firstWriteOps = len(o.store.ops)
		}
	}
	opsBefore := len(o.store.ops)
	_ = opsBefore

	var err error
	switch kind {
	case 0:
		legit := false
		if w1 > 0 {
			if id == o.q1[0].id {
				legit = true
			}
		}
		if legit {
			// an acknowledgement for a packet that was never written is F13's subject (C13)
			verifAssume(o.q1[0].written)
		}
		err = c.onPUBACK()
		if !legit {
			verifAssert(err != nil, "C13: out-of-order or unsolicited PUBACK accepted")
			verifAssert(len(o.store.ops) == 0, "C13: rejected PUBACK touched the store")
			verifReach("puback-rejected")
		} else if err != nil {
			verifAssert(errors.Is(err, verifErrStore), "C01: PUBACK failed for another reason than the store")
			st, _ := verifExState(o.q1[0].ex)
			verifAssert(st == 0, "C01: exchange signalled although the record could not be deleted")
			verifReach("puback-delete-failed")
		} else {
			st, _ := verifExState(o.q1[0].ex)
			verifAssert(st == 1, "C01: exchange channel not closed on PUBACK")
			verifAssert(o.store.find(id) < 0, "C01: record not deleted on PUBACK")
			o.q1 = o.q1[1:]
			verifReach("puback-applied")
		}
	case 2:
		legit := false
		if wr > 0 {
			if id == o.q2[0].id {
				legit = true
			}
		}
		err = c.onPUBCOMP()
		if !legit {
			verifAssert(err != nil, "C13: out-of-order or unsolicited PUBCOMP accepted")
			verifAssert(len(o.store.ops) == 0, "C13: rejected PUBCOMP touched the store")
			verifReach("pubcomp-rejected")
		} else if err != nil {
			verifAssert(errors.Is(err, verifErrStore), "C01: PUBCOMP failed for another reason than the store")
			st, _ := verifExState(o.q2[0].ex)
			verifAssert(st == 0, "C01: exchange signalled although the record could not be deleted")
			verifReach("pubcomp-delete-failed")
		} else {
			st, _ := verifExState(o.q2[0].ex)
			verifAssert(st == 1, "C01: exchange channel not closed on PUBCOMP")
			verifAssert(o.store.find(id) < 0, "C01: record not deleted on PUBCOMP")
			o.q2 = o.q2[1:]
			verifReach("pubcomp-applied")
		}
	case 1:
		legit := false
		if wp > 0 {
			if id == o.q2[wr].id {
				legit = true
			}
		}
		if legit {
			verifAssume(o.q2[wr].written)
		}
		err = c.onPUBREC()
		if !legit {
			verifAssert(err != nil, "C13: out-of-order or unsolicited PUBREC accepted")
			verifAssert(len(o.store.ops) == 0, "C13: rejected PUBREC touched the store")
			verifAssert(len(o.conn.wlog) == 0, "C13: rejected PUBREC answered")
			verifReach("pubrec-rejected")
		} else {
			saved := false
			for _, op := range o.store.ops {
				if op.kind == 'S' {
					if op.ok {
						saved = true
					}
				}
			}
			if !saved {
				verifAssert(err != nil, "C03: PUBREC applied although the PUBREL could not be saved")
				verifAssert(len(o.conn.wlog) == 0, "C03: PUBREL written although it could not be saved")
				verifReach("pubrec-save-failed")
			} else {
				// recorded: from now on only PUBREL for this identifier
				verifAssert(firstWriteOps != 0, "C03: PUBREL written before it was saved")
				o.q2[wr].release = true
				o.q2[wr].packet = verifRelPacket(id)
				rel := verifRelPacket(id)
				verifCheckWire(o.conn, rel, err)
				if err == nil {
					verifReach("pubrec-applied")
				} else {
					o.retryOK = rel
					verifReach("pubrec-write-failed")
				}
			}
			st, _ := verifExState(o.q2[wr].ex)
			verifAssert(st == 0, "C01: exchange signalled on PUBREC")
		}
	}
	if verifParam("reconnect", 1) == 1 {
		o.reconnect("C01/C03")
	}
	o.observe("C01/C03")
	o.drain("C01/C03")
}

// L01.b / L05: resend under faults writes a prefix of the pending sequence,
// whole packets up to the failure, and reports the failure.
func verifH_C01_resend() {
	level := 1 + verifChoose("level", 2)
	w1, wr, wp := verifWindows(level)
	o := verifOutState(4, 4, w1, wr, wp, verifParam("storefaults", 1))
	c := o.c
	conn := &verifConn{wfaults: verifParam("wfaults", 2)}
	var want []byte
	var err error
	if level == 1 {
		want = verifWireOf(o.q1)
		s := <-c.atLeastOnce.seqSem
		err = c.resend(conn, c.orderedTxs.Acked, &s, atLeastOnceIDSpace)
		c.atLeastOnce.seqSem <- s
	} else {
		want = verifWireOf(o.q2)
		s := <-c.exactlyOnce.seqSem
		err = c.resend(conn, c.orderedTxs.Completed, &s, exactlyOnceIDSpace)
		c.exactlyOnce.seqSem <- s
	}
	verifAssert(len(conn.wlog) <= len(want), "C01: resend wrote more than the pending set")
	k := len(conn.wlog)
	verifAssert(verifBytesEq(conn.wlog, want[:k]), "C05: resend is not a prefix of the pending packets in acceptance order")
	if err == nil {
		verifAssert(k == len(want), "C01: resend reports success without writing every pending packet")
		verifReach("complete")
	} else {
		verifAssert(k < len(want) || len(want) == 0, "C01: resend reports failure although everything was written")
		verifReach("failed")
	}
	verifAssert(conn.wafterBreak == 0, "C08: write after a failed write")
	// whatever was written completely in this pass is a re-delivery from now on
	mark := func(q []verifEntry) {
		end := 0
		for i := range q {
			end += len(q[i].packet)
			if end <= k {
				q[i].written = true
			}
		}
	}
	if level == 1 {
		mark(o.q1)
	} else {
		mark(o.q2)
	}
	o.observe("C05(after resend)")
	o.drain("C05(after resend)")
}
