//go:build verif

package mqtt

// C02 crash points: the process stops right before any one Persistence
// mutation of a running operation (or after the last); AdoptSession on what is
// left must resume exactly the pending set as it was before the operation or
// as it is after it — nothing else — without warnings, and every transfer must
// still be completable.
func verifH_C02_crash() {
	op := verifChoose("op", 5) // 0 accept QoS1, 1 accept QoS2, 2 PUBACK, 3 PUBREC, 4 PUBCOMP
	W := verifParam("W", 2)
	w1 := verifChoose("w1", W+1)
	wr := verifChoose("wr", W+1)
	wp := verifChoose("wp", W+1-wr)
	o := verifOutState(4, 4, w1, wr, wp, 0)
	c := o.c
	o.online(0)
	pre1, pre2 := verifAllWritten(o.q1), verifAllWritten(o.q2)
	post1, post2 := verifAllWritten(o.q1), verifAllWritten(o.q2)
	ack := func(id uint) { c.peek = []byte{byte(id >> 8), byte(id)} }
	var run func()
	switch op {
	case 0:
		s := <-c.atLeastOnce.seqSem
		c.atLeastOnce.seqSem <- s
		id := verifID1(s.acceptN)
		msg := verifBytes("m", 1)
		post1 = append(post1, verifEntry{id: id, packet: verifRefPublish(false, 1, false, []byte{'a'}, uint16(id), msg), written: true})
		run = func() { c.PublishAtLeastOnce(msg, "a") }
	case 1:
		s := <-c.exactlyOnce.seqSem
		c.exactlyOnce.seqSem <- s
		id := verifID2(s.acceptN)
		msg := verifBytes("m", 1)
		post2 = append(post2, verifEntry{id: id, packet: verifRefPublish(false, 2, false, []byte{'a'}, uint16(id), msg), written: true})
		run = func() { c.PublishExactlyOnce(msg, "a") }
	case 2:
		if w1 == 0 {
			return
		}
		verifAssume(o.q1[0].written)
		ack(o.q1[0].id)
		post1 = post1[1:]
		run = func() { c.onPUBACK() }
	case 3:
		if wp == 0 {
			return
		}
		verifAssume(o.q2[wr].written)
		id := o.q2[wr].id
		ack(id)
		post2[wr].release = true
		post2[wr].packet = verifRelPacket(id)
		run = func() { c.onPUBREC() }
	case 4:
		if wr == 0 {
			return
		}
		ack(o.q2[0].id)
		post2 = post2[1:]
		run = func() { c.onPUBCOMP() }
	}
	o.store.crashAt = 1 + verifChoose("crashAt", verifParam("maxops", 3))
	crashed := false
	func() {
		defer func() {
			if r := recover(); r != nil {
				if _, ok := r.(verifStoreCrash); !ok {
					panic(r)
				}
				crashed = true
			}
		}()
		run()
	}()
	o.store.crashAt = 0
	if crashed {
		verifReach("stopped-mid-operation")
	} else {
		verifReach("stopped-after-operation")
	}
	// the next process
	d := &verifDialer{}
	c2, warn, fatal := AdoptSession(o.store, &Config{Dialer: d.dial, AtLeastOnceMax: 4, ExactlyOnceMax: 4})
	verifAssert(fatal == nil, "C02: AdoptSession fails after a stop in the middle of an operation")
	verifAssert(len(warn) == 0, "C02: AdoptSession warns (drops or deletes records) after a stop in the middle of an operation")
	asBefore := verifResumes(c2, pre1, pre2)
	asAfter := false
	if !asBefore {
		asAfter = verifResumes(c2, post1, post2)
	}
	verifAssert(asBefore || asAfter, "C02: after a stop in the middle of an operation the adopted client resumes neither the pending set before nor after that operation (a transfer lost, duplicated, reordered or at the wrong stage)")
	if !crashed {
		verifAssert(asAfter || len(post1)+len(post2) == len(pre1)+len(pre2) && asBefore, "C02: a completed operation is not reflected after restart")
	}
	if asBefore {
		verifDrainClient(c2, o.store, pre1, pre2, "C02(crash)")
	} else {
		verifDrainClient(c2, o.store, post1, post2, "C02(crash)")
	}
	verifReach("end")
}
