//go:build verif

package mqtt

import "time"

func verifNativeSleep() { time.Sleep(20 * time.Millisecond) }
