//go:build verif

package mqtt

import "errors"

// L04.b / L04.c: ordering of marker operations and acknowledgements under
// store and write faults.
func verifH_C04_steps() {
	store := &verifStore{}
	rugged := &ruggedPersistence{Persistence: store}
	c := verifNewClient(rugged, &Config{PauseTimeout: verifTimeoutChoice()})
	conn := &verifInConn{}
	conn.rEOF = true
	conn.wfaults = verifParam("wfaults", 1)
	<-c.writeSem
	c.writeSem <- conn
	<-c.connSem
	c.connSem <- conn
	c.readConn = conn
	c.bufr = verifNewBufr(conn)
	blockSignalChan(c.offlineSig)
	clearSignalChan(c.onlineSig)
	id := verifU16("id")
	verifAssume(id != 0)
	key := uint(id) | remoteIDKeyFlag
	opsAtFirstWrite := -1
	conn.onWrite = func(vc *verifConn) {
		if opsAtFirstWrite < 0 {
			opsAtFirstWrite = len(store.ops)
		}
	}
	okOps := func(kind byte) int {
		n := 0
		for _, op := range store.ops {
			if op.kind == kind && op.ok {
				n++
			}
		}
		return n
	}
	switch verifChoose("scenario", 2) {
	case 0: // ownership of an exactly-once message is taken by this call
		c.pendingAck = []byte{0x50, 2, byte(id >> 8), byte(id)}
		store.faults = verifParam("storefaults", 1)
		_, _, err := c.ReadSlices()
		verifAssert(err != nil, "C04: ReadSlices returned a message from an empty stream")
		if okOps('S') == 0 {
			verifAssert(errors.Is(err, verifErrStore), "C04: marker Save failed but another error is reported")
			verifAssert(len(conn.wlog) == 0, "C04: PUBREC written although the marker could not be saved")
			verifAssert(len(c.pendingAck) == 4, "C04: pending PUBREC dropped although the marker could not be saved")
			// the next call recovers: marker saved, then PUBREC (here on a new connection)
			c.toOffline()
			after := verifNextConnection(c, store, "C04")
			verifAssert(store.find(key) >= 0, "C04: no marker after the retry")
			verifAssert(verifBytesEq(after, []byte{0x50, 2, byte(id >> 8), byte(id)}), "C07: after a failed marker Save the retry does not send exactly the owed PUBREC")
			verifReach("marker-save-failed")
			return
		}
		verifAssert(store.find(key) >= 0, "C04: no marker after ownership was taken")
		verifAssert(opsAtFirstWrite != 0, "C04: PUBREC written before the marker was saved")
		want := []byte{0x50, 2, byte(id >> 8), byte(id)}
		if len(conn.wlog) == 4 {
			verifAssert(verifBytesEq(conn.wlog, want), "C04: PUBREC bytes")
			verifAssert(len(c.pendingAck) == 0, "C04: PUBREC written but still pending")
			verifReach("pubrec-written")
		} else {
			verifAssert(len(c.pendingAck) == 4 && verifBytesEq(c.pendingAck, want), "C04: PUBREC lost after a failed write (must be retried on the next connection)")
			verifAssert(verifIsOffline(c), "C04: failed PUBREC write did not take the client offline")
			after := verifNextConnection(c, store, "C07")
			verifAssert(verifBytesEq(after, want), "C07: the PUBREC whose write failed is not sent (exactly once, first) on the next connection")
			verifReach("pubrec-write-failed")
		}
	case 1: // PUBREL ends the cycle
		rugged.Save(key, [][]byte{{0x50, 2, byte(id >> 8), byte(id)}})
		store.ops = nil
		store.faults = verifParam("storefaults", 1)
		conn.in = []byte{0x62, 2, byte(id >> 8), byte(id)}
		_, _, err := c.ReadSlices()
		verifAssert(err != nil, "C04: ReadSlices returned a message from a stream without PUBLISH")
		if okOps('D') == 0 {
			verifAssert(errors.Is(err, verifErrStore), "C04: marker Delete failed but another error is reported")
			verifAssert(len(conn.wlog) == 0, "C04: PUBCOMP written although the marker could not be deleted (the broker will not repeat PUBREL, the identifier stays blocked)")
			verifAssert(store.find(key) >= 0, "C04: marker gone although Delete failed")
			verifAssert(verifIsOffline(c), "C04: failed marker Delete must reset the connection so that the broker repeats PUBREL")
			after := verifNextConnection(c, store, "C04")
			verifAssert(len(after) == 0, "C04: PUBCOMP sent on the next connection although the marker was never deleted (the broker may reuse the identifier while the stale marker suppresses the new message)")
			verifReach("marker-delete-failed")
			return
		}
		verifAssert(store.find(key) < 0, "C04: marker kept after PUBREL")
		verifAssert(opsAtFirstWrite != 0, "C04: PUBCOMP written before the marker was deleted")
		want := []byte{0x70, 2, byte(id >> 8), byte(id)}
		if len(conn.wlog) == 4 {
			verifAssert(verifBytesEq(conn.wlog, want), "C04: PUBCOMP bytes")
			verifReach("pubcomp-written")
		} else {
			verifAssert(len(c.pendingAck) == 4 && verifBytesEq(c.pendingAck, want), "C04: PUBCOMP lost after a failed write (must be retried on the next connection)")
			verifAssert(verifIsOffline(c), "C04: failed PUBCOMP write did not take the client offline")
			after := verifNextConnection(c, store, "C04")
			verifAssert(verifBytesEq(after, want), "C04: the PUBCOMP whose write failed is not sent on the next connection")
			verifReach("pubcomp-write-failed")
		}
	}
}
