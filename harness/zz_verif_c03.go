//go:build verif

package mqtt

// C03 — exactly-once publish: no PUBLISH after recorded PUBREC, PUBREL until
// PUBCOMP, across reconnects and restarts. Composition of real operations.
func verifH_C03_cycle() {
	wp := 1 + verifChoose("wp", verifParam("W", 2))
	o := verifOutState(4, 4, 0, 0, wp, verifParam("storefaults", 1))
	c := o.c
	o.online(verifParam("wfaults", 1))
	// the head PUBLISH was written; the broker answers PUBREC
	verifAssume(o.q2[0].written)
	id := o.q2[0].id
	c.peek = []byte{byte(id >> 8), byte(id)}
	err := c.onPUBREC()
	recorded := false
	for _, op := range o.store.ops {
		if op.kind == 'S' && op.ok {
			recorded = true
		}
	}
	if recorded {
		o.q2[0].release = true
		o.q2[0].packet = verifRelPacket(id)
		verifReach("recorded")
	} else {
		verifAssert(err != nil, "C03: PUBREC applied without a recorded PUBREL")
		verifReach("not-recorded")
	}
	// reconnect: what does the same process resend?
	o.store.faults = 0
	o.observe("C03(reconnect)")
	// restart: what does an adopted client resend?
	d := &verifDialer{}
	c2, warn, fatal := AdoptSession(o.store, &Config{Dialer: d.dial, AtLeastOnceMax: 4, ExactlyOnceMax: 4})
	verifAssert(fatal == nil, "C03: AdoptSession fails")
	verifAssert(len(warn) == 0, "C03: AdoptSession warns after a PUBREC")
	q2 := append([]verifEntry{}, o.q2...)
	for i := range q2 {
		q2[i].written = true // adopted clients mark every PUBLISH as duplicate (documented)
	}
	verifObserveClient(c2, o.store, nil, q2, "C03(restart)")
	if !recorded {
		return
	}
	// PUBCOMP on the adopted client ends the transfer; nothing about it is sent again
	conn2 := &verifConn{}
	verifGoOnline(c2, conn2)
	c2.peek = []byte{byte(id >> 8), byte(id)}
	err = c2.onPUBCOMP()
	verifAssert(err == nil, "C03: in-order PUBCOMP refused after restart")
	verifObserveClient(c2, o.store, nil, q2[1:], "C03(completed)")
	// the identifier is not handed out again while others are in flight
	_, perr := c2.PublishExactlyOnce([]byte{'n'}, "n")
	verifAssert(perr == nil, "C03: publish refused")
	s := <-c2.exactlyOnce.seqSem
	c2.exactlyOnce.seqSem <- s
	newID := verifID2(s.acceptN - 1)
	verifAssert(newID != id, "C03: identifier reused right after its PUBCOMP while the ring is not exhausted")
	for _, e := range q2[1:] {
		verifAssert(newID != e.id, "C03: identifier of a transfer in flight given to another message")
	}
	verifDrainClient(c2, o.store, nil, append(q2[1:], verifEntry{id: newID, packet: nil}), "C03(completed)")
	verifReach("completed")
}
