//go:build verif

package mqtt

// Reference side of the differential checks, written from the OASIS MQTT
// 3.1.1 text and RFC 3629; shares no code with the package.

// verifRefUTF8 is a branch-free DFA for well-formed UTF-8 (RFC 3629 table).
// States: 0 start, 1 one continuation 80..BF left, 2 two left (generic),
// 3 two left, first in A0..BF (after E0), 4 two left, first in 80..9F (after
// ED), 5 three left generic, 6 three left first in 90..BF (after F0), 7 three
// left first in 80..8F (after F4), 8 reject.
func verifRefUTF8(s []byte) bool {
	st := 0
	for _, c := range s {
		b := int(c)
		in := func(lo, hi int) int { return verifB2I(b >= lo) & verifB2I(b <= hi) }
		// transition out of state 0
		n0 := 8
		n0 = verifIte(in(0x00, 0x7f) == 1, 0, n0)
		n0 = verifIte(in(0xc2, 0xdf) == 1, 1, n0)
		n0 = verifIte(b == 0xe0, 3, n0)
		n0 = verifIte(in(0xe1, 0xec) == 1, 2, n0)
		n0 = verifIte(b == 0xed, 4, n0)
		n0 = verifIte(in(0xee, 0xef) == 1, 2, n0)
		n0 = verifIte(b == 0xf0, 6, n0)
		n0 = verifIte(in(0xf1, 0xf3) == 1, 5, n0)
		n0 = verifIte(b == 0xf4, 7, n0)
		cont := in(0x80, 0xbf)
		n1 := verifIte(cont == 1, 0, 8)
		n2 := verifIte(cont == 1, 1, 8)
		n3 := verifIte(in(0xa0, 0xbf) == 1, 1, 8)
		n4 := verifIte(in(0x80, 0x9f) == 1, 1, 8)
		n5 := verifIte(cont == 1, 2, 8)
		n6 := verifIte(in(0x90, 0xbf) == 1, 2, 8)
		n7 := verifIte(in(0x80, 0x8f) == 1, 2, 8)
		nx := 8
		nx = verifIte(st == 0, n0, nx)
		nx = verifIte(st == 1, n1, nx)
		nx = verifIte(st == 2, n2, nx)
		nx = verifIte(st == 3, n3, nx)
		nx = verifIte(st == 4, n4, nx)
		nx = verifIte(st == 5, n5, nx)
		nx = verifIte(st == 6, n6, nx)
		nx = verifIte(st == 7, n7, nx)
		st = nx
	}
	return st == 0
}

func verifRefHasNUL(s []byte) bool {
	z := 0
	for _, c := range s {
		z |= verifB2I(c == 0)
	}
	return z != 0
}

// verifRefVarint encodes the remaining length as the specification's
// algorithm 2.2.3 does.
func verifRefVarint(x int) []byte {
	var out []byte
	for {
		d := byte(x % 128)
		x = x / 128
		if x > 0 {
			d |= 128
		}
		out = append(out, d)
		if x == 0 {
			return out
		}
	}
}

// verifRefString is the 2-byte length prefixed string of section 1.5.3.
func verifRefString(s []byte) []byte {
	out := []byte{byte(len(s) >> 8), byte(len(s))}
	return append(out, s...)
}

// verifRefPublish composes a PUBLISH packet (section 3.3).
func verifRefPublish(dup bool, qos int, retain bool, topic []byte, id uint16, payload []byte) []byte {
	h := byte(3<<4) | byte(qos<<1)
	if dup {
		h |= 8
	}
	if retain {
		h |= 1
	}
	body := verifRefString(topic)
	if qos > 0 {
		body = append(body, byte(id>>8), byte(id))
	}
	body = append(body, payload...)
	out := append([]byte{h}, verifRefVarint(len(body))...)
	return append(out, body...)
}

func verifRefSubscribe(id uint16, filters [][]byte, qos byte) []byte {
	body := []byte{byte(id >> 8), byte(id)}
	for _, f := range filters {
		body = append(body, verifRefString(f)...)
		body = append(body, qos)
	}
	out := append([]byte{0x82}, verifRefVarint(len(body))...)
	return append(out, body...)
}

func verifRefUnsubscribe(id uint16, filters [][]byte) []byte {
	body := []byte{byte(id >> 8), byte(id)}
	for _, f := range filters {
		body = append(body, verifRefString(f)...)
	}
	out := append([]byte{0xa2}, verifRefVarint(len(body))...)
	return append(out, body...)
}

type verifRefConnect struct {
	clientID     []byte
	cleanSession bool
	keepAlive    uint16
	hasWill      bool
	willTopic    []byte
	willMsg      []byte
	willQoS      int
	willRetain   bool
	hasUser      bool
	user         []byte
	hasPassword  bool
	password     []byte
}

// verifRefCONNECT composes a CONNECT packet (section 3.1).
func verifRefCONNECT(r *verifRefConnect) []byte {
	var flags byte
	if r.cleanSession {
		flags |= 1 << 1
	}
	if r.hasWill {
		flags |= 1 << 2
		flags |= byte(r.willQoS) << 3
		if r.willRetain {
			flags |= 1 << 5
		}
	}
	if r.hasPassword {
		flags |= 1 << 6
	}
	if r.hasUser {
		flags |= 1 << 7
	}
	body := []byte{0, 4, 'M', 'Q', 'T', 'T', 4, flags, byte(r.keepAlive >> 8), byte(r.keepAlive)}
	body = append(body, verifRefString(r.clientID)...)
	if r.hasWill {
		body = append(body, verifRefString(r.willTopic)...)
		body = append(body, verifRefString(r.willMsg)...)
	}
	if r.hasUser {
		body = append(body, verifRefString(r.user)...)
	}
	if r.hasPassword {
		body = append(body, verifRefString(r.password)...)
	}
	out := append([]byte{0x10}, verifRefVarint(len(body))...)
	return append(out, body...)
}
