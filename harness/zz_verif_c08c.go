//go:build verif

package mqtt

import "errors"

// C08 — bounded schedule exploration of concurrent writers: a plain publish,
// a request awaiting a response and the read routine's acknowledgement share
// one connection whose Write takes time (scheduling point inside Write).
func verifH_C08_concurrent() {
	verifUnwind(400)
	verifPreempt(verifParam("preempt", 1))
	c := verifNewClient(&verifStore{}, &Config{PauseTimeout: verifTimeoutChoice()})
	conn := &verifConn{wfaults: verifParam("wfaults", 1), slow: true, coarse: true}
	verifGoOnline(c, conn)
	// the read routine notices a closed connection at once: Online gets blocked (the rest of
	// toOffline needs the write token and is played after the writers came to rest)
	conn.onClose = func() { blockSignalChan(c.onlineSig) }
	payload := []byte{'x', 'y'}
	if verifChoose("bigpayload", verifParam("big", 1)+1) == 1 {
		// larger than the pooled packet buffer
		payload = make([]byte, 130)
		for i := range payload {
			payload[i] = 'x'
		}
	}
	pub := verifRefPublish(false, 0, false, []byte{'a'}, 0, payload)
	ping := verifRefPublish(false, 0, true, []byte{'b'}, 0, []byte{'z'}) // second writer: a retained publish
	ack := []byte{0x40, 2, 0, 7}
	var e1, e2, e3 error
	done := 0
	r1, r2, r3 := false, false, false
	go func() { e1 = c.Publish(nil, payload, "a"); done++; r1 = true }()
	go func() { e2 = c.PublishRetained(nil, []byte{'z'}, "b"); done++; r2 = true }()
	go func() { e3 = c.writeAck(ack); done++; r3 = true }()
	verifQuiesce()
	if done != 3 {
		// a failed write left connPending: waiting requests are released by the outcome of
		// the next connect attempt, played here as a failed one
		tok := <-c.writeSem
		verifAssert(tok == connPending, "C08/C11: a writer waits although the connection is live")
		c.writeSem <- connDown
		verifQuiesce()
	}
	verifAssert(r1, "C08/C11: Publish did not return")
	verifAssert(r2, "C08/C11: PublishRetained did not return")
	verifAssert(r3, "C08/C11: the read routine's write did not return")
	packets, rest, ok := verifSplit(conn.wlog)
	verifAssert(ok, "C08: malformed packet on the wire (interleaved writers?)")
	// every complete packet is one of the three, each at most once
	used := [3]bool{}
	for _, p := range packets {
		k := -1
		if verifBytesEq(p, pub) {
			k = 0
		} else if verifBytesEq(p, ping) {
			k = 1
		} else if verifBytesEq(p, ack) {
			k = 2
		}
		verifAssert(k >= 0, "C08: bytes on the wire are not a whole, unmodified packet of one of the writers")
		if k >= 0 {
			verifAssert(!used[k], "C08: a packet appears twice on the wire")
			used[k] = true
		}
	}
	verifAssert(conn.wafterBreak == 0, "C08: write after a failed write")
	if len(rest) > 0 {
		// an incomplete packet is the last thing on this connection
		verifAssert(conn.closed, "C08: connection left open after an incomplete packet")
		verifReach("broken")
	}
	// success only for complete packets
	if e1 == nil {
		verifAssert(used[0], "C08: Publish reports success but its packet is not on the wire")
	}
	if e3 == nil {
		verifAssert(used[2], "C08: acknowledgement reported as written but it is not on the wire")
	}
	if e2 == nil {
		verifAssert(used[1], "C08: PublishRetained reports success but its packet is not on the wire")
	}
	for i, e := range []error{e1, e2} {
		if e != nil && (errors.Is(e, ErrDown) || errors.Is(e, ErrCanceled) || errors.Is(e, ErrClosed)) {
			verifAssert(!used[i], "C14: request reported as not submitted but its packet is on the wire")
		}
	}
	verifAssert(len(c.writeSem) == 1, "C08: write token not returned")
	verifReach("end")
}

// C12 — concurrent Close / Disconnect with a writer in flight.
func verifH_C12_concurrent() {
	verifPreempt(verifParam("preempt", 1))
	c := verifNewClient(&verifStore{}, &Config{})
	conn := &verifConn{slow: true}
	verifGoOnline(c, conn)
	var e1, e2, e3 error
	done := 0
	second := verifChoose("second", 3)
	go func() { e1 = c.Publish(nil, []byte{'x'}, "a"); done++ }()
	go func() { e2 = c.Close(); done++ }()
	go func() {
		switch second {
		case 0:
			e3 = c.Close()
		case 1:
			e3 = c.Disconnect(nil)
		case 2:
			e3 = c.Disconnect(verifClosedChan())
		}
		done++
	}()
	verifQuiesce()
	verifAssert(done == 3, "C12: Close/Disconnect or a writer did not return with concurrent invocations")
	_, _, _ = e1, e2, e3
	verifAssert(conn.closed, "C12: connection left open after Close")
	verifAssert(verifIsReleased(c.Offline()) && !verifIsReleased(c.Online()), "C12: Offline not released / Online not blocked after Close")
	_, ok := <-c.writeSem
	verifAssert(!ok, "C12: write semaphore not closed")
	_, ok = <-c.connSem
	verifAssert(!ok, "C12: connection semaphore not closed")
	packets, rest, okw := verifSplit(conn.wlog)
	verifAssert(okw, "C08: malformed packet on the wire")
	if len(rest) > 0 {
		// Close may interrupt a write: the incomplete packet is the last thing on the connection
		verifAssert(e1 != nil, "C08: Publish reports success for a packet that Close interrupted")
		verifReach("interrupted")
	}
	// DISCONNECT, when written, is the last packet
	for i, p := range packets {
		if p[0] == 0xe0 {
			verifAssert(i == len(packets)-1, "C12: something written after DISCONNECT")
		}
	}
	verifAssert(errors.Is(c.Publish(nil, nil, "t"), ErrClosed), "C12: Publish after close")
	_, _, rerr := c.ReadSlices()
	verifAssert(errors.Is(rerr, ErrClosed), "C12: ReadSlices after close must report ErrClosed")
	verifQuiesce()
	verifAssert(verifLiveGoroutines() == 0, "C12: a goroutine is left behind")
	verifReach("end")
}
