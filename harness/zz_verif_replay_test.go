//go:build verif

package mqtt

import (
	"fmt"
	"os"
	"testing"
	"time"
)

// TestVerifReplay runs one harness natively on the vector the solver produced.
func TestVerifReplay(t *testing.T) {
	path := os.Getenv("VERIF_VECTOR")
	if path == "" {
		t.Skip("no VERIF_VECTOR")
	}
	if err := verifLoadVector(path); err != nil {
		t.Fatal(err)
	}
	h := verifHarnesses[verifVec.Harness]
	if h == nil {
		t.Fatalf("unknown harness %q", verifVec.Harness)
	}
	done := make(chan string, 1)
	go func() {
		defer func() {
			switch r := recover().(type) {
			case nil:
				done <- "VERIF-PASS"
			case verifViolation:
				done <- "VERIF-VIOLATION: " + r.msg
			case verifAssumeFailed:
				done <- "VERIF-ASSUME-FAILED"
			default:
				done <- fmt.Sprintf("VERIF-PANIC: %v", r)
			}
		}()
		h()
	}()
	select {
	case s := <-done:
		fmt.Println(s)
		if s != "VERIF-PASS" {
			t.Fail()
		}
	case <-time.After(20 * time.Second):
		fmt.Println("VERIF-HANG: harness did not return within 20 s")
		t.Fail()
	}
}
