//go:build verif

package mqtt

import (
	"bufio"
	"encoding/json"
	"fmt"
	"os"
	"sort"
	"strings"
	"testing"
	"time"
)

// TestVerifReplay runs one harness natively on the vector the solver produced.
func TestVerifReplay(t *testing.T) {
	path := os.Getenv("VERIF_VECTOR")
	if path == "" {
		t.Skip("no VERIF_VECTOR")
	}
	if err := verifLoadVector(path); err != nil {
		t.Fatal(err)
	}
	h := verifHarnesses[verifVec.Harness]
	if h == nil {
		t.Fatalf("unknown harness %q", verifVec.Harness)
	}
	done := make(chan string, 1)
	go func() {
		defer func() {
			switch r := recover().(type) {
			case nil:
				done <- "VERIF-PASS"
			case verifViolation:
				done <- "VERIF-VIOLATION: " + r.msg
			case verifAssumeFailed:
				done <- "VERIF-ASSUME-FAILED"
			default:
				done <- fmt.Sprintf("VERIF-PANIC: %v", r)
			}
		}()
		h()
	}()
	select {
	case s := <-done:
		fmt.Println(s)
		if s != "VERIF-PASS" {
			t.Fail()
		}
	case <-time.After(20 * time.Second):
		fmt.Println("VERIF-HANG: harness did not return within 20 s")
		t.Fail()
	}
}

// TestVerifSelftest: translator validation. Every line of VERIF_VECTORS is a
// loose vector; the harness outcome is printed per line for comparison with
// the engine's concrete execution of the same vector.
func TestVerifSelftest(t *testing.T) {
	path := os.Getenv("VERIF_VECTORS")
	if path == "" {
		t.Skip("no VERIF_VECTORS")
	}
	f, err := os.Open(path)
	if err != nil {
		t.Fatal(err)
	}
	defer f.Close()
	sc := bufio.NewScanner(f)
	sc.Buffer(make([]byte, 1<<20), 1<<24)
	i := 0
	for sc.Scan() {
		verifVec = verifVector{}
		verifVecPos = 0
		verifReached = nil
		if err := json.Unmarshal(sc.Bytes(), &verifVec); err != nil {
			t.Fatal(err)
		}
		h := verifHarnesses[verifVec.Harness]
		done := make(chan string, 1)
		go func() {
			defer func() {
				switch r := recover().(type) {
				case nil:
					done <- "pass"
				case verifViolation:
					done <- "violation: " + r.msg
				case verifAssumeFailed:
					done <- "assume-failed"
				default:
					done <- fmt.Sprintf("panic: %v", r)
				}
			}()
			h()
		}()
		var out string
		select {
		case out = <-done:
		case <-time.After(20 * time.Second):
			out = "hang"
		}
		tags := append([]string{}, verifReached...)
		sort.Strings(tags)
		fmt.Printf("SELFTEST %d %s | reach=%s\n", i, out, strings.Join(tags, ","))
		i++
	}
}
