//go:build verif

package mqtt

import "errors"

// C16 — a damaged Persistence never bricks the session.

// verifSubsequence: every packet on the wire is, in order, one of the genuine
// records (DUP bit aside); returns how many were emitted.
func verifEmittedFrom(wire []byte, genuine []verifEntry, tag string) int {
	packets, rest, ok := verifSplit(wire)
	verifAssert(ok && len(rest) == 0, tag+": resend emitted an incomplete or malformed packet")
	j := 0
	for _, p := range packets {
		q := append([]byte{}, p...)
		q[0] &^= dupeFlag
		found := false
		for j < len(genuine) {
			g := genuine[j]
			j++
			if len(g.packet) == len(q) {
				if verifBytesEq(g.packet, q) {
					found = true
					break
				}
			}
		}
		verifAssert(found, tag+": resend emitted a packet that was never saved, or out of the original order")
	}
	return len(packets)
}

func verifH_C16_adopt() {
	W := verifParam("W", 1)
	w1min := verifParam("W1min", 0)
	w1 := w1min + verifChoose("w1", verifParam("W1", W)+1-w1min)
	wrmin := verifParam("WRmin", 0)
	wr := wrmin + verifChoose("wr", W+1-wrmin)
	wpmin := verifParam("WPmin", 0)
	wp := wpmin + verifChoose("wp", verifParam("WP", W)+1-wpmin)
	ps := verifPINVStore(w1, wr, wp)
	store := ps.store
	readBufSize = verifB
	// damage up to k outbound records
	damaged := 0
	_ = damaged
	unusable := 0 // records still present that cannot be used
	for d := 0; d < verifParam("damage", 1); d++ {
		var idx []int
		for i := range store.slots {
			if store.slots[i].present {
				if store.slots[i].key&0x18000 == 0x8000 {
					idx = append(idx, i)
				}
			}
		}
		pick := verifChoose("victim", len(idx)+1)
		if pick == len(idx) {
			continue
		}
		s := &store.slots[idx[pick]]
		switch verifChoose("damage", 3) {
		case 0: // altered: checksum fails (detection itself is C15)
			if len(s.val) == 0 {
				continue // already truncated to nothing by the first damage
			}
			s.val[len(s.val)-1] ^= 1
			unusable++
		case 1: // truncated below the trailer size
			s.val = s.val[:11*verifChoose("keep", 2)] // 0 or 11 bytes
			unusable++
		case 2: // removed
			*s = verifSlot{}
		}
		damaged++
	}
	// two damages may hit the same record (and an alteration may undo an
	// earlier one): count what is unusable in the final store
	unusable = 0
	for i := range store.slots {
		if store.slots[i].present {
			if store.slots[i].key&0x18000 == 0x8000 {
				if _, _, err := decodeValue(store.slots[i].val); err != nil {
					unusable++
				}
			}
		}
	}
	// genuine survivors in original order
	var g1, g2 []verifEntry
	for _, e := range ps.q1 {
		if i := store.find(e.id); i >= 0 {
			if _, _, err := decodeValue(store.slots[i].val); err == nil {
				g1 = append(g1, e)
			}
		}
	}
	for _, e := range ps.q2 {
		if i := store.find(e.id); i >= 0 {
			if _, _, err := decodeValue(store.slots[i].val); err == nil {
				g2 = append(g2, e)
			}
		}
	}
	// stray entries outside the outbound spaces
	switch verifChoose("stray", verifParam("strays", 3)) {
	case 1:
		store.put(0x0007, verifRecord([]byte{0x30, 3, 0, 1, 'x'}, 3))
	case 2:
		store.put(0x4001, []byte{1, 2, 3})
	}
	cfg := verifAdoptConfig()
	c, warn, fatal := AdoptSession(store, cfg)
	verifAssert(fatal == nil, "C16: AdoptSession fails on a damaged store")
	// observer: resend must succeed (every key it asks for exists) and emit only genuine packets in order
	obs := &verifConn{}
	s1 := <-c.atLeastOnce.seqSem
	err := c.resend(obs, c.orderedTxs.Acked, &s1, atLeastOnceIDSpace)
	c.atLeastOnce.seqSem <- s1
	verifAssert(err == nil, "C16: the adopted client cannot resend its at-least-once queue (every connect would fail)")
	n1 := verifEmittedFrom(obs.wlog, g1, "C16")
	verifAssert(len(c.atLeastOnce.queue) == n1, "C16: at-least-once placeholders differ from the packets resumed (acknowledgements would not drain the queue)")
	obs2 := &verifConn{}
	s2 := <-c.exactlyOnce.seqSem
	err = c.resend(obs2, c.orderedTxs.Completed, &s2, exactlyOnceIDSpace)
	c.exactlyOnce.seqSem <- s2
	verifAssert(err == nil, "C16: the adopted client cannot resend its exactly-once queue (every connect would fail)")
	n2 := verifEmittedFrom(obs2.wlog, g2, "C16")
	verifAssert(len(c.exactlyOnce.queue) == n2, "C16: exactly-once placeholders differ from the packets resumed (acknowledgements would not drain the queue)")
	if unusable > 0 || n1 < len(g1) || n2 < len(g2) {
		verifAssert(len(warn) > 0, "C16: records were abandoned without a warning")
		verifReach("abandoned-with-warning")
	}
	// PUBRELs come before PUBLISHes and stages are kept: checked by order in g2

	// new publishes do not collide with resumed or stale records that are resent
	before := store.count()
	lvl := verifChoose("publish", 3)
	if lvl == 1 {
		_, err := c.PublishAtLeastOnce([]byte{'z'}, "n")
		verifAssert(err == nil, "C16: publish on the adopted client refused")
	} else if lvl == 2 {
		_, err := c.PublishExactlyOnce([]byte{'z'}, "n")
		verifAssert(err == nil, "C16: publish on the adopted client refused")
	}
	if lvl != 0 {
		// the new record may replace a stale abandoned one, never a resumed one
		obs3 := &verifConn{}
		var e error
		var n int
		if lvl == 1 {
			s := <-c.atLeastOnce.seqSem
			e = c.resend(obs3, c.orderedTxs.Acked, &s, atLeastOnceIDSpace)
			c.atLeastOnce.seqSem <- s
			n = n1
		} else {
			s := <-c.exactlyOnce.seqSem
			e = c.resend(obs3, c.orderedTxs.Completed, &s, exactlyOnceIDSpace)
			c.exactlyOnce.seqSem <- s
			n = n2
		}
		verifAssert(e == nil, "C16: resend fails after a publish on the adopted client")
		packets, _, _ := verifSplit(obs3.wlog)
		verifAssert(len(packets) == n+1, "C16: the new publish replaced a resumed transfer (identifier collision) or got lost")
		_ = before
	}
	verifReach("end")
}

// damaged client identifier record / inbound marker: a later attempt must be able to succeed
func verifH_C16_clientid() {
	ps := verifPINVStore(0, 0, 0)
	store := ps.store
	readBufSize = verifB
	i := store.find(clientIDKey)
	switch verifChoose("damage", 2) {
	case 0:
		store.slots[i].val[0] ^= 1
	case 1:
		store.slots[i].val = store.slots[i].val[:5]
	}
	conn1 := &verifConn{in: []byte{0x20, 2, 0, 0}}
	conn2 := &verifConn{in: []byte{0x20, 2, 0, 0}}
	d := &verifDialer{conns: []*verifConn{conn1, conn2}}
	c, warn, fatal := AdoptSession(store, &Config{Dialer: d.dial, AtLeastOnceMax: 2, ExactlyOnceMax: 2})
	if fatal != nil || len(warn) > 0 {
		verifReach("reported")
		return
	}
	_, _, err1 := c.ReadSlices()
	_, _, err2 := c.ReadSlices()
	connected := d.calls > 0
	verifAssert(connected || !(err1 != nil && err2 != nil) || errors.Is(err1, ErrClosed), "C16: damaged client-identifier record: AdoptSession reports nothing and every connect attempt fails the same way")
	verifReach("end")
}
