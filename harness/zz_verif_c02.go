//go:build verif

package mqtt

// C02 — restart resumes exactly the unacknowledged set, repeatedly.
// C16 — a damaged Persistence never bricks the session.

type verifPStore struct {
	store *verifStore
	q1    []verifEntry
	q2    []verifEntry
	maxSigma uint64
}

// verifPINVStore fills a store with an arbitrary content a process stop can
// leave behind (DESIGN 4.1 PINV): one contiguous run per kind, ring positions
// and storage sequence numbers free, List order varied.
func verifPINVStore(w1, wr, wp int) *verifPStore {
	ps := &verifPStore{store: &verifStore{}}
	type rec struct {
		key uint
		val []byte
	}
	var recs []rec
	recs = append(recs, rec{clientIDKey, verifRecord([]byte("cid"), 1)})
	a := uint(verifU64("ring1"))
	verifAssume(a < 1<<62)
	s1 := verifU64("sigma1")
	verifAssume(s1 >= 2 && s1 < 1<<62)
	sparse := verifParam("sparse", 0) == 1 // damaged stores: records may already be missing inside a run
	off := uint(0)
	for i := 0; i < w1; i++ {
		if sparse && i > 0 {
			off += uint(verifChoose("gap1", 2))
		}
		id := verifID1(a + uint(i) + off)
		p := verifRefPublish(false, 1, false, []byte{'t'}, uint16(id), verifBytes("m1", 1))
		recs = append(recs, rec{id, verifRecord(p, s1+uint64(i))})
		ps.q1 = append(ps.q1, verifEntry{id: id, packet: p, written: true})
	}
	c := uint(verifU64("ring2"))
	verifAssume(c < 1<<62)
	sr := verifU64("sigmaRel")
	verifAssume(sr >= 2 && sr < 1<<62)
	sp := verifU64("sigmaPub")
	verifAssume(sp >= 2 && sp < 1<<62)
	off = 0
	for i := 0; i < wr+wp; i++ {
		if sparse && i > 0 {
			off += uint(verifChoose("gap2", 2))
		}
		id := verifID2(c + uint(i) + off)
		var p []byte
		var sg uint64
		if i < wr {
			p = verifRelPacket(id)
			sg = sr + uint64(i)
		} else {
			p = verifRefPublish(false, 2, false, []byte{'t'}, uint16(id), verifBytes("m2", 1))
			sg = sp + uint64(i-wr)
		}
		recs = append(recs, rec{id, verifRecord(p, sg)})
		ps.q2 = append(ps.q2, verifEntry{id: id, release: i < wr, packet: p, written: true})
	}
	// an inbound marker is none of AdoptSession's business
	if verifChoose("marker", verifParam("markers", 2)) == 1 {
		recs = append(recs, rec{0x10000 | 0x0102, verifRecord([]byte{0x50, 2, 1, 2}, 2)})
	}
	ps.maxSigma = s1 + uint64(w1)
	if m := sr + uint64(wr); m > ps.maxSigma {
		ps.maxSigma = m
	}
	if m := sp + uint64(wp); m > ps.maxSigma {
		ps.maxSigma = m
	}
	// List order: forward, reverse, or rotated
	n := len(recs)
	switch verifChoose("listorder", verifParam("orders", 3)) {
	case 0:
		for i := 0; i < n; i++ {
			ps.store.put(recs[i].key, recs[i].val)
		}
	case 1:
		for i := n - 1; i >= 0; i-- {
			ps.store.put(recs[i].key, recs[i].val)
		}
	case 2:
		k := n / 2
		for i := 0; i < n; i++ {
			ps.store.put(recs[(i+k)%n].key, recs[(i+k)%n].val)
		}
	}
	return ps
}

// verifObserveClient resends both levels of c onto fresh connections and
// compares with the expected in-flight lists.
func verifObserveClient(c *Client, store *verifStore, q1, q2 []verifEntry, tag string) {
	o := &verifOut{c: c, store: store, q1: q1, q2: q2}
	o.observe(tag)
}

func verifDrainClient(c *Client, store *verifStore, q1, q2 []verifEntry, tag string) {
	o := &verifOut{c: c, store: store, q1: q1, q2: q2}
	o.drain(tag)
}

func verifAdoptConfig() *Config {
	d := &verifDialer{}
	cfg := &Config{Dialer: d.dial}
	switch verifChoose("maxima", verifParam("maxcls", 3)) {
	case 0:
		cfg.AtLeastOnceMax, cfg.ExactlyOnceMax = -1, -1 // documented: default 16,384
	case 1:
		cfg.AtLeastOnceMax, cfg.ExactlyOnceMax = 8, 8
	case 2:
		cfg.AtLeastOnceMax, cfg.ExactlyOnceMax = 100000, 100000 // documented: truncated silently
	}
	return cfg
}

// verifH_C02_adopt: adopt an arbitrary PINV store, publish, stop, adopt again.
func verifH_C02_adopt() {
	shapes := [][3]int{{0, 0, 0}, {1, 1, 1}, {2, 0, 0}, {0, 2, 1}, {0, 1, 2}, {0, 2, 0}, {2, 2, 2}, {3, 1, 0}, {0, 3, 0}, {0, 0, 3}}
	sh := shapes[verifChoose("shape", verifParam("shapes", 6))]
	w1, wr, wp := sh[0], sh[1], sh[2]
	ps := verifPINVStore(w1, wr, wp)
	readBufSize = verifB
	cfg := verifAdoptConfig()
	c, warn, fatal := AdoptSession(ps.store, cfg)
	verifAssert(fatal == nil, "C02: AdoptSession fails on a store a process stop can leave behind")
	verifAssert(len(warn) == 0, "C02: AdoptSession warns about a store a process stop can leave behind")
	verifObserveClient(c, ps.store, ps.q1, ps.q2, "C02(adopt)")
	verifReach("adopted")

	// second generation: one more publish while offline, then stop and adopt again
	gen2 := verifChoose("gen2", 4)
	if gen2 == 0 {
		verifDrainClient(c, ps.store, ps.q1, ps.q2, "C02(adopt)")
		verifReach("drained")
		return
	}
	if gen2 == 3 {
		// second generation: the broker's PUBREC for the first pending exactly-once PUBLISH, then a stop
		if wp == 0 {
			return
		}
		conn := &verifConn{}
		verifGoOnline(c, conn)
		id := ps.q2[wr].id
		c.peek = []byte{byte(id >> 8), byte(id)}
		err := c.onPUBREC()
		verifAssert(err == nil, "C02: in-order PUBREC refused on the adopted client")
		ps.q2[wr].release = true
		ps.q2[wr].packet = verifRelPacket(id)
		cfg2 := verifAdoptConfig()
		c2, warn2, fatal2 := AdoptSession(ps.store, cfg2)
		verifAssert(fatal2 == nil, "C02: second AdoptSession fails")
		verifAssert(len(warn2) == 0, "C02: second AdoptSession drops records (storage order of a PUBREL saved after a restart)")
		verifObserveClient(c2, ps.store, ps.q1, ps.q2, "C02(second adopt after PUBREC)")
		verifDrainClient(c2, ps.store, ps.q1, ps.q2, "C02(second adopt after PUBREC)")
		verifReach("adopted-twice-pubrec")
		return
	}
	msg := verifBytes("new", 1)
	var id uint
	var want []byte
	if gen2 == 1 {
		var last uint
		s := <-c.atLeastOnce.seqSem
		last = s.acceptN
		c.atLeastOnce.seqSem <- s
		ex, err := c.PublishAtLeastOnce(msg, "n")
		verifAssert(err == nil, "C02: publish on the adopted client refused")
		verifAssert(ex != nil, "C02: no exchange channel")
		id = verifID1(last)
		if w1 > 0 {
			verifAssert(id == verifID1(ps.q1[w1-1].id+1), "C02: publish on the adopted client does not continue the identifier sequence")
		}
		want = verifRefPublish(false, 1, false, []byte{'n'}, uint16(id), msg)
		ps.q1 = append(ps.q1, verifEntry{id: id, packet: want, written: true})
	} else {
		s := <-c.exactlyOnce.seqSem
		last := s.acceptN
		c.exactlyOnce.seqSem <- s
		_, err := c.PublishExactlyOnce(msg, "n")
		verifAssert(err == nil, "C02: publish on the adopted client refused")
		id = verifID2(last)
		if wr+wp > 0 {
			verifAssert(id == verifID2(ps.q2[wr+wp-1].id+1), "C02: publish on the adopted client does not continue the identifier sequence")
		}
		want = verifRefPublish(false, 2, false, []byte{'n'}, uint16(id), msg)
		ps.q2 = append(ps.q2, verifEntry{id: id, packet: want, written: true})
	}
	slot := ps.store.find(id)
	verifAssert(slot >= 0, "C02: publish on the adopted client left no record")
	// process stops here; next generation
	cfg2 := verifAdoptConfig()
	c2, warn2, fatal2 := AdoptSession(ps.store, cfg2)
	verifAssert(fatal2 == nil, "C02: second AdoptSession fails")
	verifAssert(len(warn2) == 0, "C02: second AdoptSession drops records (storage order of records saved after a restart)")
	verifObserveClient(c2, ps.store, ps.q1, ps.q2, "C02(second adopt)")
	verifDrainClient(c2, ps.store, ps.q1, ps.q2, "C02(second adopt)")
	verifReach("adopted-twice")
}
