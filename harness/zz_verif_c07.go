//go:build verif

package mqtt

// L07.d: an acknowledgement is owed for a message the application holds (or a
// PUBCOMP is owed after PUBREL) while another routine's write has failed in
// the meantime: that writer closed the connection and left the write token at
// connPending. The next ReadSlices cannot send the acknowledgement; it must
// stay owed and go out, exactly once and before anything else, on the next
// connection. For PUBREC the ownership marker is saved before either attempt.
func verifH_C07_ackwhiledown() {
	store := &verifStore{}
	rugged := &ruggedPersistence{Persistence: store}
	c := verifNewClient(rugged, &Config{PauseTimeout: verifTimeoutChoice()})
	conn := &verifInConn{}
	conn.rEOF = true
	<-c.connSem
	c.connSem <- conn
	c.readConn = conn
	c.bufr = verifNewBufr(conn)
	blockSignalChan(c.offlineSig)
	clearSignalChan(c.onlineSig)
	// the failed writer: Close, then the token goes back as connPending
	conn.Close()
	<-c.writeSem
	c.writeSem <- connPending

	id := verifU16("id")
	verifAssume(id != 0)
	var head byte
	switch verifChoose("ack", 3) {
	case 0:
		head = 0x40
	case 1:
		head = 0x50
	case 2:
		head = 0x70
	}
	want := []byte{head, 2, byte(id >> 8), byte(id)}
	c.pendingAck = []byte{head, 2, byte(id >> 8), byte(id)}

	msg, _, err := c.ReadSlices()
	verifAssert(len(conn.wlog) == 0, "C07: bytes written to a connection another writer already gave up")
	if err == nil {
		// the call may have reconnected by itself (the default dialer of the
		// harness refuses, so this is not expected) — a message without
		// the owed acknowledgement sent first would be the violation below
		verifAssert(msg == nil, "C07: ReadSlices returned a message from a closed connection")
	}
	if head == 0x50 {
		verifAssert(store.find(uint(id)|remoteIDKeyFlag) >= 0, "C04: ownership marker not saved although PUBREC is owed")
	}
	after := verifNextConnection(c, store, "C07")
	verifAssert(verifBytesEq(after, want), "C07: the acknowledgement owed while another writer had lost the connection is not sent (exactly once, first) on the next connection")
	verifAssert(len(c.pendingAck) == 0, "C07: acknowledgement written on the next connection but still pending")
	verifReach("end")
}

// L07.d': the same foreign failure while a PUBREL sits in the read buffer
// already: the marker is deleted, PUBCOMP cannot be written, it stays owed and
// is the first and only packet after CONNECT on the next connection.
func verifH_C07_pubrelwhiledown() {
	store := &verifStore{}
	rugged := &ruggedPersistence{Persistence: store}
	c := verifNewClient(rugged, &Config{PauseTimeout: verifTimeoutChoice()})
	conn := &verifInConn{}
	conn.rEOF = true
	id := verifU16("id")
	verifAssume(id != 0)
	key := uint(id) | remoteIDKeyFlag
	rugged.Save(key, [][]byte{{0x50, 2, byte(id >> 8), byte(id)}})
	conn.in = []byte{0x62, 2, byte(id >> 8), byte(id)}
	<-c.connSem
	c.connSem <- conn
	c.readConn = conn
	c.bufr = verifNewBufr(conn)
	blockSignalChan(c.offlineSig)
	clearSignalChan(c.onlineSig)
	c.bufr.Peek(1) // the PUBREL is buffered before the connection goes
	conn.Close()
	<-c.writeSem
	c.writeSem <- connPending

	_, _, err := c.ReadSlices()
	verifAssert(err != nil, "C04: ReadSlices returned a message from a stream without PUBLISH")
	verifAssert(len(conn.wlog) == 0, "C07: bytes written to a connection another writer already gave up")
	verifAssert(store.find(key) < 0, "C04: marker kept after PUBREL")
	want := []byte{0x70, 2, byte(id >> 8), byte(id)}
	after := verifNextConnection(c, store, "C04")
	verifAssert(verifBytesEq(after, want), "C04: the PUBCOMP owed while another writer had lost the connection is not sent (exactly once, first) on the next connection")
	verifAssert(len(c.pendingAck) == 0, "C04: PUBCOMP written on the next connection but still pending")
	verifReach("end")
}
