//go:build verif

package mqtt

import "errors"

// L08.c — request wrappers: whole packets only, failure closes the
// connection and leaves connPending, success only for a complete packet.
func verifH_C08_requests() {
	store := &verifStore{}
	cfg := &Config{PauseTimeout: verifTimeoutChoice(), AtLeastOnceMax: 2, ExactlyOnceMax: 2}
	c := verifNewClient(store, cfg)
	conn := &verifConn{wfaults: verifParam("faults", 2)}
	verifGoOnline(c, conn)

	msg := verifBytes("msg", verifChoose("msglen", 3))
	var err error
	submitted := true // false when the error class promises that nothing was sent
	kind := verifChoose("req", 6)
	switch kind {
	case 0:
		err = c.Publish(nil, msg, "t")
	case 1:
		err = c.PublishRetained(nil, msg, "tt")
	case 2:
		err = c.Subscribe(verifClosedChan(), "a", "bc")
	case 3:
		err = c.Unsubscribe(verifClosedChan(), "a")
	case 4:
		err = c.Ping(verifClosedChan())
	case 5:
		var ex <-chan error
		ex, err = c.PublishAtLeastOnce(msg, "t")
		if err == nil {
			select {
			case err = <-ex:
			default:
			}
		}
	}
	if err != nil {
		if errors.Is(err, ErrCanceled) || errors.Is(err, ErrDown) || errors.Is(err, ErrClosed) || errors.Is(err, ErrMax) {
			submitted = false
		}
	}

	packets, rest, ok := verifSplit(conn.wlog)
	verifAssert(ok, "C08: malformed length on the wire")
	verifAssert(conn.wafterBreak == 0, "C08: write after a failed write")
	if !submitted {
		verifAssert(len(conn.wlog) == 0, "C08/C14: bytes written for a request reported as not submitted")
		verifReach("not-submitted")
		return
	}
	if err == nil || errors.Is(err, ErrAbandoned) {
		verifAssert(len(rest) == 0, "C08: success reported for an incomplete packet")
		verifAssert(len(packets) == 1, "C08: not exactly one packet on the wire")
		// the token is live again
		tok := <-c.writeSem
		verifAssert(tok == conn, "C08: live write token not restored after a complete write")
		verifReach("complete")
		return
	}
	verifAssert(errors.Is(err, ErrSubmit), "C08/C14: failed transfer not reported as ErrSubmit")
	verifAssert(len(packets) == 0, "C08: error reported although a whole packet went out")
	verifAssert(conn.closed, "C08: connection left open after an incomplete packet")
	tok := <-c.writeSem
	verifAssert(tok == connPending, "C08: write token not connPending after a failed write")
	c.writeSem <- tok
	// the read routine finds the connection closed and redials: the new
	// connection carries nothing of the failed request, except a persisted
	// publish, which is sent again whole and as a first transmission
	after := verifNextConnection(c, store, "C08")
	if kind == 5 {
		want := verifRefPublish(false, 1, false, []byte{'t'}, uint16(atLeastOnceIDSpace), msg)
		verifAssert(verifBytesEq(after, want), "C08/C05: a persisted publish whose first write broke is not sent whole, once and without DUP on the next connection")
	} else {
		verifAssert(len(after) == 0, "C08: bytes of a failed, non-persisted request appear on the next connection")
	}
	verifReach("failed")
}

// verifH_C08_poolalias: the pooled packet buffers. While a request's bytes are
// handed to the Persistence or to the connection, another goroutine takes a
// buffer from the pool and scribbles over it (as composing its own packet
// would). A request that gave its buffer back too early then puts foreign
// bytes on the wire or into the store. Every request kind that composes in a
// pooled buffer.
func verifH_C08_poolalias() {
	store := &verifStore{}
	cfg := &Config{AtLeastOnceMax: 2, ExactlyOnceMax: 2}
	c := verifNewClient(store, cfg)
	conn := &verifConn{}
	verifGoOnline(c, conn)
	intrude := func() {
		b := bufPool.Get().(*[bufSize]byte)
		for i := 0; i < 40; i++ { // the part a small packet occupies
			b[i] = 0xee
		}
		bufPool.Put(b)
	}
	conn.beforeWrite = intrude
	store.beforeSave = intrude
	msg := verifBytes("msg", 1)
	kind := verifChoose("req", 8)
	var want []byte
	var err error
	key := uint(0)
	switch kind {
	case 0:
		err = c.Publish(nil, msg, "t")
		want = verifRefPublish(false, 0, false, []byte{'t'}, 0, msg)
	case 1:
		err = c.PublishRetained(nil, msg, "t")
		want = verifRefPublish(false, 0, true, []byte{'t'}, 0, msg)
	case 2:
		_, err = c.PublishAtLeastOnce(msg, "t")
		key = atLeastOnceIDSpace
		want = verifRefPublish(false, 1, false, []byte{'t'}, uint16(key), msg)
	case 3:
		_, err = c.PublishAtLeastOnceRetained(msg, "t")
		key = atLeastOnceIDSpace
		want = verifRefPublish(false, 1, true, []byte{'t'}, uint16(key), msg)
	case 4:
		_, err = c.PublishExactlyOnce(msg, "t")
		key = exactlyOnceIDSpace
		want = verifRefPublish(false, 2, false, []byte{'t'}, uint16(key), msg)
	case 5:
		_, err = c.PublishExactlyOnceRetained(msg, "t")
		key = exactlyOnceIDSpace
		want = verifRefPublish(false, 2, true, []byte{'t'}, uint16(key), msg)
	case 6:
		err = c.Subscribe(verifClosedChan(), "f")
		want = verifRefSubscribe(uint16(subscribeIDSpace), [][]byte{{'f'}}, 2)
		if errors.Is(err, ErrAbandoned) {
			err = nil
		}
	case 7:
		err = c.Unsubscribe(verifClosedChan(), "f")
		want = verifRefUnsubscribe(uint16(unsubscribeIDSpace), [][]byte{{'f'}})
		if errors.Is(err, ErrAbandoned) {
			err = nil
		}
	}
	if kind >= 6 && errors.Is(err, ErrCanceled) {
		// the closed quit won against the free write token: nothing submitted
		verifAssert(len(conn.wlog) == 0, "C14: canceled request wrote bytes")
		verifReach("canceled")
		return
	}
	verifAssert(err == nil, "C08: request on a healthy connection failed")
	verifAssert(verifBytesEq(conn.wlog, want), "C08: the bytes on the wire are not the request's packet (a pooled buffer was given back while still referenced: another request's bytes got in)")
	if key != 0 {
		i := store.find(key)
		verifAssert(i >= 0, "C01: no record for the persisted publish")
		if i >= 0 {
			verifAssert(verifBytesEq(store.slots[i].val, verifRecord(want, 1)), "C01/C15: the stored record is not the request's packet (pooled buffer reused while still referenced)")
		}
	}
	verifReach("end")
}
