//go:build verif

package mqtt

// C05/C08 — bounded schedule exploration: two publishers on one level run
// concurrently (cooperative goroutine model with a bounded number of
// preemptions at channel operations); wire order must equal identifier order
// and only whole packets may appear.
func verifH_C05_concurrent() {
	verifPreempt(verifParam("preempt", 2))
	level := 1 + verifChoose("level", 2)
	w1, wr, wp := 0, 0, 0
	if verifChoose("pending", 2) == 1 {
		if level == 1 {
			w1 = 1
		} else {
			wp = 1
		}
	}
	o := verifOutState(6, 6, w1, wr, wp, 0)
	c := o.c
	o.online(verifParam("wfaults", 0))
	o.conn.slow = true // a write takes time: the other publisher may arrive meanwhile
	out := c.atLeastOnce
	if level == 2 {
		out = c.exactlyOnce
	}
	pre := <-out.seqSem
	out.seqSem <- pre
	backlog := pre.submitN < pre.acceptN
	var errs [2]error
	finished := 0
	for i := 0; i < 2; i++ {
		i := i
		go func() {
			topic := string([]byte{'a' + byte(i)})
			if level == 1 {
				_, errs[i] = c.PublishAtLeastOnce([]byte{'m'}, topic)
			} else {
				_, errs[i] = c.PublishExactlyOnce([]byte{'m'}, topic)
			}
			finished++
		}()
	}
	verifQuiesce()
	verifAssert(finished == 2, "C05: a concurrent publisher did not return")
	verifAssert(errs[0] == nil && errs[1] == nil, "C05: concurrent publish refused below the maximum")
	post := <-out.seqSem
	out.seqSem <- post
	verifAssert(post.acceptN == pre.acceptN+2, "C17: two accepted publishes did not consume exactly two identifiers")
	verifTokensHome(c, "C05(concurrent)")
	// who got which identifier: read it from the store
	var ids [2]uint
	for k := 0; k < 2; k++ {
		if level == 1 {
			ids[k] = verifID1(pre.acceptN + uint(k))
		} else {
			ids[k] = verifID2(pre.acceptN + uint(k))
		}
	}
	var entries []verifEntry
	seen := [2]bool{}
	for k := 0; k < 2; k++ {
		slot := o.store.find(ids[k])
		verifAssert(slot >= 0, "C17: two concurrent publishes share one identifier (a record is missing)")
		rec := o.store.slots[slot].val
		t := rec[4] // topic byte of [head, len, 0, 1, topic, idhi, idlo, payload...]
		who := int(t - 'a')
		verifAssert(who == 0 || who == 1, "C01: stored record is not one of the two publishes")
		seen[who] = true
		p := verifRefPublish(false, level, false, []byte{t}, uint16(ids[k]), []byte{'m'})
		entries = append(entries, verifEntry{id: ids[k], packet: p})
	}
	verifAssert(seen[0] && seen[1], "C01: one of the two accepted publishes has no record")
	// the wire carries whole packets in identifier order (unless a write broke)
	packets, rest, ok := verifSplit(o.conn.wlog)
	verifAssert(ok, "C08: malformed packet on the wire")
	if o.conn.wfaults == verifParam("wfaults", 0) {
		verifAssert(len(rest) == 0, "C08: incomplete packet without a write fault (interleaved writers?)")
	}
	faultUsed := o.conn.wfaults != verifParam("wfaults", 0)
	if !backlog && !faultUsed {
		verifAssert(len(packets) == 2, "C05: an accepted publish was not written although the client is online without backlog (a concurrent publisher made it look like backlog)")
	}
	// written = what the wire shows, not what the counters claim
	for k := range entries {
		for _, p := range packets {
			if verifBytesEq(p, entries[k].packet) {
				entries[k].written = true
			}
		}
	}
	if !backlog && len(rest) == 0 && len(packets) == 2 {
		verifAssert(verifBytesEq(packets[0], entries[0].packet), "C05: with concurrent publishers the first packet on the wire is not the one with the first identifier")
		verifAssert(verifBytesEq(packets[1], entries[1].packet), "C05: with concurrent publishers the second packet on the wire is not the one with the second identifier")
		verifReach("both-written-in-order")
	}
	if level == 1 {
		o.q1 = append(o.q1, entries...)
	} else {
		o.q2 = append(o.q2, entries...)
	}
	o.observe("C05(concurrent)")
	o.drain("C05(concurrent)")
	verifReach("end")
}
