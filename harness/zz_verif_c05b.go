//go:build verif

package mqtt

// C05/C08 — bounded schedule exploration: two publishers on one level run
// concurrently (cooperative goroutine model with a bounded number of
// preemptions at channel operations); wire order must equal identifier order
// and only whole packets may appear.
func verifH_C05_concurrent() {
	verifPreempt(verifParam("preempt", 2))
	level := 1 + verifChoose("level", 2)
	w1, wr, wp := 0, 0, 0
	if verifChoose("pending", 2) == 1 {
		if level == 1 {
			w1 = 1
		} else {
			wp = 1
		}
	}
	o := verifOutState(6, 6, w1, wr, wp, 0)
	c := o.c
	o.online(verifParam("wfaults", 0))
	o.conn.slow = true // a write takes time: the other publisher may arrive meanwhile
	out := c.atLeastOnce
	if level == 2 {
		out = c.exactlyOnce
	}
	pre := <-out.seqSem
	out.seqSem <- pre
	backlog := pre.submitN < pre.acceptN
	var errs [2]error
	finished := 0
	for i := 0; i < 2; i++ {
		i := i
		go func() {
			topic := string([]byte{'a' + byte(i)})
			if level == 1 {
				_, errs[i] = c.PublishAtLeastOnce([]byte{'m'}, topic)
			} else {
				_, errs[i] = c.PublishExactlyOnce([]byte{'m'}, topic)
			}
			finished++
		}()
	}
	verifQuiesce()
	verifAssert(finished == 2, "C05: a concurrent publisher did not return")
	verifAssert(errs[0] == nil && errs[1] == nil, "C05: concurrent publish refused below the maximum")
	post := <-out.seqSem
	out.seqSem <- post
	verifAssert(post.acceptN == pre.acceptN+2, "C17: two accepted publishes did not consume exactly two identifiers")
	verifTokensHome(c, "C05(concurrent)")
	// who got which identifier: read it from the store
	var ids [2]uint
	for k := 0; k < 2; k++ {
		if level == 1 {
			ids[k] = verifID1(pre.acceptN + uint(k))
		} else {
			ids[k] = verifID2(pre.acceptN + uint(k))
		}
	}
	var entries []verifEntry
	seen := [2]bool{}
	for k := 0; k < 2; k++ {
		slot := o.store.find(ids[k])
		verifAssert(slot >= 0, "C17: two concurrent publishes share one identifier (a record is missing)")
		rec := o.store.slots[slot].val
		t := rec[4] // topic byte of [head, len, 0, 1, topic, idhi, idlo, payload...]
		who := int(t - 'a')
		verifAssert(who == 0 || who == 1, "C01: stored record is not one of the two publishes")
		seen[who] = true
		p := verifRefPublish(false, level, false, []byte{t}, uint16(ids[k]), []byte{'m'})
		entries = append(entries, verifEntry{id: ids[k], packet: p})
	}
	verifAssert(seen[0] && seen[1], "C01: one of the two accepted publishes has no record")
	// the wire carries whole packets in identifier order (unless a write broke)
	packets, rest, ok := verifSplit(o.conn.wlog)
	verifAssert(ok, "C08: malformed packet on the wire")
	if o.conn.wfaults == verifParam("wfaults", 0) {
		verifAssert(len(rest) == 0, "C08: incomplete packet without a write fault (interleaved writers?)")
	}
	faultUsed := o.conn.wfaults != verifParam("wfaults", 0)
	if !backlog && !faultUsed {
		verifAssert(len(packets) == 2, "C05: an accepted publish was not written although the client is online without backlog (a concurrent publisher made it look like backlog)")
	}
	// written = what the wire shows, not what the counters claim
	for k := range entries {
		for _, p := range packets {
			if verifBytesEq(p, entries[k].packet) {
				entries[k].written = true
			}
		}
	}
	if !backlog && len(rest) == 0 && len(packets) == 2 {
		verifAssert(verifBytesEq(packets[0], entries[0].packet), "C05: with concurrent publishers the first packet on the wire is not the one with the first identifier")
		verifAssert(verifBytesEq(packets[1], entries[1].packet), "C05: with concurrent publishers the second packet on the wire is not the one with the second identifier")
		verifReach("both-written-in-order")
	}
	if level == 1 {
		o.q1 = append(o.q1, entries...)
	} else {
		o.q2 = append(o.q2, entries...)
	}
	o.observe("C05(concurrent)")
	o.drain("C05(concurrent)")
	verifReach("end")
}

// C05 — a publisher racing the read routine's reconnect. The Persistence and
// the connection are scheduling points (a Save and a Write take time), so the
// publisher may hold its level's sequence token anywhere inside connect():
// both must return (a lock-order inversion is a deadlock), the new connection
// carries CONNECT, then the pending transfers in order, then the new publish
// at most once and without DUP, and the observer finds exactly the in-flight set.
func verifH_C05_reconnectrace() {
	level := 1 + verifChoose("level", 2)
	w1, wp := 0, 0
	if level == 1 {
		w1 = 1
	} else {
		wp = 1
	}
	e := verifConnectState(w1, 0, wp)
	o := e.o
	c := o.c
	conn := e.conn
	conn.in = []byte{0x20, 2, 0, 0}
	conn.rEOF = false
	conn.slow = true
	o.store.slow = true
	var cerr, perr error
	var ex <-chan error
	finished := 0
	go func() {
		cerr = c.connect()
		finished++
	}()
	go func() {
		if level == 1 {
			ex, perr = c.PublishAtLeastOnce([]byte{'n'}, "n")
		} else {
			ex, perr = c.PublishExactlyOnce([]byte{'n'}, "n")
		}
		finished++
	}()
	verifQuiesce()
	verifAssert(finished == 2, "C05: a publisher racing the reconnect, or the reconnect itself, never returns")
	conn.slow = false
	o.store.slow = false
	verifAssert(cerr == nil, "C05: connect fails next to a concurrent publisher")
	verifAssert(perr == nil, "C05: publish refused below the maximum next to a reconnect")
	_ = ex
	verifTokensHome(c, "C05(reconnect race)")
	// the new publish got the next identifier
	var q []verifEntry
	var id uint
	if level == 1 {
		q = o.q1
		id = verifID1(c.orderedTxs.Acked + uint(len(q)))
	} else {
		q = o.q2
		id = verifID2(c.orderedTxs.Completed + uint(len(q)))
	}
	np := verifRefPublish(false, level, false, []byte{'n'}, uint16(id), []byte{'n'})
	packets, rest, ok := verifSplit(conn.wlog)
	verifAssert(ok && len(rest) == 0, "C08: incomplete or malformed packet on the new connection")
	verifAssert(len(packets) >= 1+len(q), "C05: pending transfers not resent on the new connection")
	if len(packets) < 1+len(q) {
		return
	}
	verifAssert(packets[0][0] == 0x10, "C18: the connection does not start with CONNECT")
	old := verifWireOf(q)
	var got []byte
	for _, p := range packets[1 : 1+len(q)] {
		got = append(got, p...)
	}
	verifAssert(verifBytesEq(got, old), "C05: after the reconnect the unacknowledged transfers are not retransmitted first, in order (a new publish overtook them, or DUP is wrong)")
	tail := packets[1+len(q):]
	verifAssert(len(tail) <= 1, "C05: the new publish is on the wire more than once")
	written := false
	if len(tail) == 1 {
		verifAssert(verifBytesEq(tail[0], np), "C05: the packet after the resend is not the new publish as a first transmission (no DUP, next identifier)")
		written = true
		verifReach("new-after-old")
	}
	ent := verifEntry{id: id, packet: np, written: written}
	for i := range o.q1 {
		o.q1[i].written = true // resent completely on this connection
	}
	for i := range o.q2 {
		o.q2[i].written = true
	}
	if level == 1 {
		o.q1 = append(o.q1, ent)
	} else {
		o.q2 = append(o.q2, ent)
	}
	o.observe("C05(reconnect race)")
	verifReach("end")
}
