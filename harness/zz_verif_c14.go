//go:build verif

package mqtt

import (
	"errors"
	"fmt"
	"io"
)

// C14 — errors stay in documented classes.

type verifIsErr struct{ target error }

func (e verifIsErr) Error() string        { return "verif: custom Is" }
func (e verifIsErr) Is(target error) bool { return target == e.target }

type verifNilUnwrap struct{}

func (verifNilUnwrap) Error() string { return "verif: nil unwrap" }
func (verifNilUnwrap) Unwrap() error { return nil }

func verifLeaf() error {
	leaves := []error{ErrClosed, ErrDown, ErrMax, errZero, SubscribeError{"x"}, verifIsErr{errNull}, verifNilUnwrap{}, ErrCanceled,
		ErrAbandoned, ErrSubmit, ErrBreak, errUTF8, errSubscribeNone, io.EOF, verifErrHard, verifIsErr{ErrClosed}}
	n := verifParam("leaves", len(leaves))
	return leaves[verifChoose("leaf", n)]
}

func verifErrTree(depth int) error {
	kind := 0
	if depth > 0 {
		kind = verifChoose("node", 5)
	}
	switch kind {
	case 1:
		return fmt.Errorf("%w; wrapped", verifErrTree(depth-1))
	case 2:
		return fmt.Errorf("%w and %w", verifErrTree(depth-1), verifLeaf())
	case 3:
		return errors.Join(verifErrTree(depth-1), verifLeaf())
	case 4:
		return errors.Join(verifLeaf(), verifErrTree(depth-1), verifLeaf())
	}
	return verifLeaf()
}

func verifIsAnyRef(e error, targets []error) bool {
	r := false
	for _, t := range targets {
		if errors.Is(e, t) {
			r = true
		}
	}
	return r
}

// L14.c: classifiers agree with errors.Is over arbitrary trees, leave their
// argument unchanged, and Backoff/ReadBackoff are nil exactly for the
// permanent classes.
func verifH_C14_classifiers() {
	verifUnwind(600)
	e := verifErrTree(verifParam("depth", 2))
	wantDeny := verifIsAnyRef(e, denyErrs)
	wantEnd := verifIsAnyRef(e, endErrs)
	closedBefore := errors.Is(e, ErrClosed)
	downBefore := errors.Is(e, ErrDown)
	// both orders, repeated
	order := verifChoose("order", 2)
	var gotDeny, gotEnd bool
	if order == 0 {
		gotDeny = IsDeny(e)
		gotEnd = IsEnd(e)
	} else {
		gotEnd = IsEnd(e)
		gotDeny = IsDeny(e)
	}
	verifAssert(gotDeny == wantDeny, "C14: IsDeny disagrees with errors.Is over the deny errors")
	verifAssert(gotEnd == wantEnd, "C14: IsEnd disagrees with errors.Is over ErrClosed, ErrCanceled, ErrAbandoned")
	verifAssert(IsDeny(e) == wantDeny && IsEnd(e) == wantEnd, "C14: classifier answers change when asked again")
	verifAssert(errors.Is(e, ErrClosed) == closedBefore, "C14: a classifier modified its argument (errors.Is(e, ErrClosed) changed)")
	verifAssert(errors.Is(e, ErrDown) == downBefore, "C14: a classifier modified its argument (errors.Is(e, ErrDown) changed)")
	verifAssert(verifIsAnyRef(e, denyErrs) == wantDeny && verifIsAnyRef(e, endErrs) == wantEnd, "C14: a classifier modified its argument")

	c := verifNewClient(&verifStore{}, &Config{})
	var se SubscribeError
	permanent := wantDeny || wantEnd || errors.As(e, &se)
	ch := c.Backoff(e)
	if !(errors.Is(e, ErrMax) && errors.As(e, &se)) {
		// ErrMax joined with a SubscribeError is nothing the library produces;
		// Backoff's case order decides it, the documentation does not
		verifAssert((ch == nil) == permanent, "C14: Backoff is nil exactly for IsDeny, IsEnd and SubscribeError")
	}
	rch := c.ReadBackoff(e)
	verifAssert((rch == nil) == closedBefore, "C14: ReadBackoff is nil exactly for ErrClosed")
	verifAssert(c.Backoff(nil) == nil, "C14: Backoff(nil)")
	verifReach("end")
}

const (
	verifClsClosed = 1 << iota
	verifClsDown
	verifClsMax
	verifClsCanceled
	verifClsDeny
	verifClsSubmit
	verifClsBreak
	verifClsAbandoned
	verifClsSubErr
	verifClsStore
)

func verifClassOf(e error) int {
	c := 0
	if errors.Is(e, ErrClosed) {
		c |= verifClsClosed
	}
	if errors.Is(e, ErrDown) {
		c |= verifClsDown
	}
	if errors.Is(e, ErrMax) {
		c |= verifClsMax
	}
	if errors.Is(e, ErrCanceled) {
		c |= verifClsCanceled
	}
	if IsDeny(e) {
		c |= verifClsDeny
	}
	if errors.Is(e, ErrSubmit) {
		c |= verifClsSubmit
	}
	if errors.Is(e, ErrBreak) {
		c |= verifClsBreak
	}
	if errors.Is(e, ErrAbandoned) {
		c |= verifClsAbandoned
	}
	var se SubscribeError
	if errors.As(e, &se) {
		c |= verifClsSubErr
	}
	if errors.Is(e, verifErrStore) {
		c |= verifClsStore
	}
	return c
}

// L14.a/b: each request method x client state x fault x quit x response.
func verifH_C14_methods() {
	store := &verifStore{faults: verifParam("storefaults", 1)}
	cfg := &Config{PauseTimeout: verifTimeoutChoice(), AtLeastOnceMax: 1, ExactlyOnceMax: 1}
	c := verifNewClient(store, cfg)
	var conn *verifConn
	state := verifChoose("state", 3) // 0 down, 1 online, 2 closed
	switch state {
	case 0:
		verifSetWriteToken(c, connDown)
	case 1:
		conn = &verifConn{wfaults: verifParam("wfaults", 1), coarse: true}
		verifGoOnline(c, conn)
	case 2:
		c.Close()
	}
	var quit chan struct{}
	quitClosed := verifChoose("quit", 2) == 1
	if quitClosed {
		quit = verifClosedChan()
	}
	method := verifChoose("method", 7)
	valid := verifChoose("valid", 2) == 1
	topic := "t"
	if !valid {
		topic = ""
	}
	// the read routine's part, played once the request waits for its response
	waits := method >= 2 && method <= 4 && !quitClosed && state == 1
	response := 0
	if waits {
		response = verifChoose("response", 4)
		go func() {
			verifQuiesce()
			switch response {
			case 0: // positive answer to whatever is registered
				if method == 4 {
					c.peek = nil
					c.onPINGRESP()
					return
				}
				for id := range c.unorderedTxs.perPacketID {
					if method == 2 {
						c.peek = []byte{byte(id >> 8), byte(id), 1}
						c.onSUBACK()
					} else {
						c.peek = []byte{byte(id >> 8), byte(id)}
						c.onUNSUBACK()
					}
				}
			case 1: // broker fails the filter
				if method == 2 {
					for id := range c.unorderedTxs.perPacketID {
						c.peek = []byte{byte(id >> 8), byte(id), 0x80}
						c.onSUBACK()
					}
					return
				}
				c.toOffline()
			case 2: // connection loss
				c.toOffline()
			case 3: // close
				c.Close()
				c.ReadSlices()
			}
		}()
	}
	var err error
	allowed := 0
	switch method {
	case 0:
		err = c.Publish(quit, []byte{'m'}, topic)
		allowed = verifClsClosed | verifClsDown | verifClsCanceled | verifClsDeny | verifClsSubmit
	case 1:
		err = c.PublishRetained(quit, []byte{'m'}, topic)
		allowed = verifClsClosed | verifClsDown | verifClsCanceled | verifClsDeny | verifClsSubmit
	case 2:
		err = c.Subscribe(quit, topic)
		allowed = verifClsClosed | verifClsDown | verifClsMax | verifClsCanceled | verifClsDeny | verifClsSubErr | verifClsSubmit | verifClsBreak | verifClsAbandoned
	case 3:
		err = c.Unsubscribe(quit, topic)
		allowed = verifClsClosed | verifClsDown | verifClsMax | verifClsCanceled | verifClsDeny | verifClsSubErr | verifClsSubmit | verifClsBreak | verifClsAbandoned
	case 4:
		err = c.Ping(quit)
		allowed = verifClsClosed | verifClsDown | verifClsMax | verifClsCanceled | verifClsSubmit | verifClsBreak | verifClsAbandoned
	case 5:
		err = c.Disconnect(quit)
		allowed = verifClsClosed | verifClsDown | verifClsCanceled | verifClsSubmit
	case 6:
		var ex <-chan error
		ex, err = c.PublishAtLeastOnce([]byte{'m'}, topic)
		allowed = verifClsClosed | verifClsMax | verifClsDeny | verifClsStore
		if err != nil {
			verifAssert(ex == nil, "C14: failed persisted publish returned an exchange")
			verifAssert(len(c.atLeastOnce.queue) == 0, "C14: failed persisted publish was enqueued")
		}
	}
	wire := 0
	if conn != nil {
		wire = len(conn.wlog)
	}
	if method == 2 || method == 3 {
		// whatever the outcome, a request that returned holds no identifier slot
		verifAssert(len(c.unorderedTxs.perPacketID) == 0, "C17: a subscribe/unsubscribe request that returned still occupies its identifier slot (refused and failed requests would exhaust the 512 slots)")
	}
	if err == nil {
		verifReach("ok")
		return
	}
	cls := verifClassOf(err)
	verifAssert(cls != 0, "C14: error outside every documented class")
	verifAssert(cls&^allowed == 0, "C14: error class not documented for this method")
	verifAssert(!(IsDeny(err) && IsEnd(err)), "C14: IsDeny and IsEnd both true")
	if method != 5 && cls&(verifClsClosed|verifClsDown|verifClsMax|verifClsCanceled|verifClsDeny) != 0 && cls&(verifClsSubmit|verifClsBreak|verifClsAbandoned) == 0 {
		verifAssert(wire == 0, "C14: error class promises 'not submitted' but bytes of the request were written")
		verifReach("not-submitted")
	}
	if method == 5 && cls&(verifClsClosed|verifClsDown|verifClsCanceled) != 0 {
		verifAssert(wire == 0, "C14: Disconnect reports 'not sent' but bytes were written")
	}
	if !valid && method != 4 && method != 5 {
		verifAssert(IsDeny(err), "C09: invalid argument not refused with IsDeny")
		verifAssert(wire == 0 && len(store.ops) == 0, "C09: denied request left a trace")
	}
	if quitClosed && method != 6 {
		// a quit signal leads only to ErrCanceled or ErrAbandoned (results
		// already at hand aside: deny, closed, down, max come first)
		if cls&(verifClsDeny|verifClsClosed|verifClsDown|verifClsMax|verifClsSubmit) == 0 {
			verifAssert(cls&(verifClsCanceled|verifClsAbandoned) != 0, "C14: quit led to something else than ErrCanceled or ErrAbandoned")
			verifReach("quit")
		}
	}
	verifReach("classified")
}
