//go:build verif

package mqtt

// Nondeterministic environment: connection, store, dialer. Plain Go, executed
// symbolically by gosx and natively in replay.

import (
	"context"
	"errors"
	"io"
	"net"
	"time"
)

// ---------- errors of the environment ----------

type verifTimeoutErr struct{}

func (verifTimeoutErr) Error() string   { return "verif: i/o timeout" }
func (verifTimeoutErr) Timeout() bool   { return true }
func (verifTimeoutErr) Temporary() bool { return true }

var verifErrHard = errors.New("verif: connection reset")
var verifErrStore = errors.New("verif: store failure")
var verifErrDial = errors.New("verif: dial failure")

// ---------- connection ----------

const (
	verifWOK      = iota // accepts everything
	verifWTimeout        // accepts n < len(p), then a timeout error
	verifWHard           // accepts n < len(p), then a hard error
	verifWClosed         // accepts nothing: net.ErrClosed
)

type verifDeadlineEv struct {
	read  bool
	armed bool
}

type verifConn struct {
	// write side
	wlog        []byte // every byte accepted, in order
	wcalls      int
	wfaults     int  // remaining write calls that may misbehave
	wbroken     bool // a Write returned a non-timeout error
	wafterBreak int  // bytes accepted after wbroken (must stay 0)
	wtimeouts   int  // number of timeout returns so far
	// read side
	in       []byte // what the broker sends
	rpos     int
	rcuts    int  // remaining reads that may be cut short
	rfaults  int  // remaining reads that may return a timeout instead of data
	rEOF     bool // after the input: EOF (true) or block-then-timeout (false)
	rcalls   int
	// bookkeeping
	closed     bool
	closeCalls int
	closeErr   error
	deadlines  []verifDeadlineEv
	rArmed     bool // read deadline currently armed
	wArmed     bool
	readsUnarmedMidPacket int
	noDeadlineErrs bool
	onWrite func(c *verifConn) // hook after each accepted write
	beforeWrite func()         // hook at the start of each Write, before the bytes are looked at
	stall       chan struct{}  // non-nil: a Write blocks until the connection is closed (a peer that stopped reading, no deadline)
	coarse  bool               // case-split faulty write offsets coarsely (0, 1, len-1)
	onClose func()             // hook at Close
	slow    bool               // a Write takes time: other goroutines get to run meanwhile (scheduling point)
}

func (c *verifConn) Write(p []byte) (int, error) {
	c.wcalls++
	if c.slow && len(p) > 0 {
		verifYieldTag(string([]byte{'w', "0123456789abcdef"[p[0]>>4], "0123456789abcdef"[len(p)&15]}))
	}
	if c.beforeWrite != nil {
		c.beforeWrite()
	}
	if c.stall != nil && !c.closed && !c.wArmed {
		<-c.stall // only Close ends it
		return 0, net.ErrClosed
	}
	if c.closed {
		return 0, net.ErrClosed
	}
	if c.wbroken {
		// the library must not write after a failed write; accept and count
		c.wafterBreak += len(p)
	}
	mode := verifWOK
	if c.wfaults > 0 && len(p) > 0 {
		mode = verifChoose("wmode", 4)
		if mode != verifWOK {
			c.wfaults--
		}
	}
	switch mode {
	case verifWOK:
		c.wlog = append(c.wlog, p...)
		if c.onWrite != nil {
			c.onWrite(c)
		}
		return len(p), nil
	case verifWClosed:
		// somebody (the read routine, Close) closed the connection meanwhile
		if c.onClose != nil && !c.closed {
			c.closed = true
			c.onClose()
		}
		c.closed = true
		return 0, net.ErrClosed
	}
	n := 0
	if c.coarse && len(p) > 3 {
		// long packets: stop at the first byte, after it, or before the last
		n = []int{0, 1, len(p) - 1}[verifChoose("wn3", 3)]
	} else {
		n = verifChoose("wn", len(p)) // 0 <= n < len(p): an error never comes with everything accepted
	}
	c.wlog = append(c.wlog, p[:n]...)
	if mode == verifWTimeout {
		c.wtimeouts++
		return n, verifTimeoutErr{}
	}
	c.wbroken = true
	return n, verifErrHard
}

func (c *verifConn) Read(p []byte) (int, error) {
	c.rcalls++
	if c.closed {
		return 0, net.ErrClosed
	}
	rest := len(c.in) - c.rpos
	if rest == 0 {
		if c.rEOF {
			return 0, io.EOF
		}
		return 0, verifTimeoutErr{}
	}
	if c.rfaults > 0 {
		if verifChoose("rfault", 2) == 1 {
			c.rfaults--
			return 0, verifTimeoutErr{}
		}
	}
	n := rest
	if n > len(p) {
		n = len(p)
	}
	if c.rcuts > 0 && n > 1 {
		c.rcuts--
		n = 1 + verifChoose("rn", n) // 1..n
	}
	copy(p, c.in[c.rpos:c.rpos+n])
	c.rpos += n
	return n, nil
}

func (c *verifConn) Close() error {
	c.closeCalls++
	if c.slow && !c.closed {
		verifYieldTag("close") // closing takes time: other goroutines may still write meanwhile
	}
	if c.stall != nil && !c.closed {
		close(c.stall)
	}
	c.closed = true
	if c.onClose != nil && c.closeCalls == 1 {
		c.onClose()
	}
	return c.closeErr
}

func (c *verifConn) LocalAddr() net.Addr  { return nil }
func (c *verifConn) RemoteAddr() net.Addr { return nil }

func (c *verifConn) SetDeadline(t time.Time) error {
	c.SetReadDeadline(t)
	return c.SetWriteDeadline(t)
}

func (c *verifConn) SetReadDeadline(t time.Time) error {
	c.rArmed = !t.IsZero()
	c.deadlines = append(c.deadlines, verifDeadlineEv{read: true, armed: c.rArmed})
	return nil
}

func (c *verifConn) SetWriteDeadline(t time.Time) error {
	c.wArmed = !t.IsZero()
	c.deadlines = append(c.deadlines, verifDeadlineEv{read: false, armed: c.wArmed})
	return nil
}

// ---------- store ----------

type verifSlot struct {
	key     uint
	val     []byte
	present bool
}

const verifSlots = 10

type verifOp struct {
	kind byte // 'S' save, 'D' delete, 'L' load, 'I' list
	key  uint
	ok   bool
}

// verifStore implements Persistence. Operations fail without effect on a
// nondeterministic choice while faults remain.
type verifStore struct {
	slots   [verifSlots]verifSlot
	ops     []verifOp
	faults  int
	crashAt int // the process stops right before the crashAt-th Save/Delete (0 = never)
	mutOps  int
	slow    bool // a Save takes time: a scheduling point before and after it
	beforeSave func() // hook at the start of each Save, before the value is looked at
}

// verifStoreCrash is the process stop: nothing after it happens.
type verifStoreCrash struct{}

func (s *verifStore) crashPoint() {
	s.mutOps++
	if s.crashAt != 0 && s.mutOps == s.crashAt {
		panic(verifStoreCrash{})
	}
}

func (s *verifStore) fail(tag string) bool {
	if s.faults > 0 {
		if verifChoose(tag, 2) == 1 {
			s.faults--
			return true
		}
	}
	return false
}

func (s *verifStore) find(key uint) int {
	for i := range s.slots {
		if s.slots[i].present {
			if s.slots[i].key == key {
				return i
			}
		}
	}
	return -1
}

func (s *verifStore) Load(key uint) ([]byte, error) {
	if s.fail("loadfail") {
		s.ops = append(s.ops, verifOp{'L', key, false})
		return nil, verifErrStore
	}
	s.ops = append(s.ops, verifOp{'L', key, true})
	i := s.find(key)
	if i < 0 {
		return nil, nil
	}
	v := make([]byte, len(s.slots[i].val))
	copy(v, s.slots[i].val)
	return v, nil
}

func (s *verifStore) Save(key uint, value net.Buffers) error {
	if s.slow {
		verifYieldTag("save")
		defer verifYieldTag("saved")
	}
	if s.beforeSave != nil {
		s.beforeSave()
	}
	s.crashPoint()
	if s.fail("savefail") {
		s.ops = append(s.ops, verifOp{'S', key, false})
		return verifErrStore
	}
	// like the library's own FileSystem store: the value is written out with
	// net.Buffers.WriteTo, which consumes the buffers it is given
	w := &verifSink{}
	value.WriteTo(w)
	v := w.b
	if v == nil {
		v = []byte{}
	}
	s.ops = append(s.ops, verifOp{'S', key, true})
	i := s.find(key)
	if i < 0 {
		for j := range s.slots {
			if !s.slots[j].present {
				i = j
				break
			}
		}
		if i < 0 {
			panic("verifStore: out of slots (harness bound too small)")
		}
	}
	s.slots[i] = verifSlot{key: key, val: v, present: true}
	return nil
}

func (s *verifStore) Delete(key uint) error {
	s.crashPoint()
	if s.fail("delfail") {
		s.ops = append(s.ops, verifOp{'D', key, false})
		return verifErrStore
	}
	s.ops = append(s.ops, verifOp{'D', key, true})
	if i := s.find(key); i >= 0 {
		s.slots[i] = verifSlot{}
	}
	return nil
}

func (s *verifStore) List() ([]uint, error) {
	if s.fail("listfail") {
		return nil, verifErrStore
	}
	var keys []uint
	for i := range s.slots {
		if s.slots[i].present {
			keys = append(keys, s.slots[i].key)
		}
	}
	return keys, nil
}

type verifSink struct{ b []byte }

func (w *verifSink) Write(p []byte) (int, error) {
	w.b = append(w.b, p...)
	return len(p), nil
}

// put installs a record directly (building a pre-state).
func (s *verifStore) put(key uint, val []byte) {
	for j := range s.slots {
		if !s.slots[j].present {
			s.slots[j] = verifSlot{key: key, val: val, present: true}
			return
		}
	}
	panic("verifStore: out of slots")
}

func (s *verifStore) count() int {
	n := 0
	for i := range s.slots {
		if s.slots[i].present {
			n++
		}
	}
	return n
}

// ---------- dialer ----------

type verifDialer struct {
	conns []*verifConn // handed out in order
	calls int
	fail  bool
}

func (d *verifDialer) dial(ctx context.Context) (net.Conn, error) {
	d.calls++
	if d.fail || d.calls > len(d.conns) {
		return nil, verifErrDial
	}
	return d.conns[d.calls-1], nil
}

// ---------- helpers ----------

func verifFlat(b net.Buffers) []byte {
	var out []byte
	for _, x := range b {
		out = append(out, x...)
	}
	return out
}

func verifBytesEq(a, b []byte) bool {
	if len(a) != len(b) {
		return false
	}
	var d byte
	for i := range a {
		d |= a[i] ^ b[i]
	}
	return d == 0
}

// verifRecord builds the stored form of a packet (the documented layout),
// independently of encodeValue: packet, 8-byte LE sequence number, 4-byte BE
// FNV-1a over both.
func verifRecord(packet []byte, seqNo uint64) []byte {
	out := make([]byte, 0, len(packet)+12)
	out = append(out, packet...)
	for i := 0; i < 8; i++ {
		out = append(out, byte(seqNo>>(8*uint(i))))
	}
	h := uint32(2166136261)
	for _, c := range out {
		h ^= uint32(c)
		h *= 16777619
	}
	return append(out, byte(h>>24), byte(h>>16), byte(h>>8), byte(h))
}

// ---------- context model (used by the engine in place of package context) ----------

type verifCtx struct {
	done     chan struct{}
	err      error
	children []*verifCtx
}

func (c *verifCtx) Deadline() (time.Time, bool) { return time.Time{}, false }
func (c *verifCtx) Done() <-chan struct{}       { return c.done }
func (c *verifCtx) Err() error                  { return c.err }
func (c *verifCtx) Value(key any) any           { return nil }

func (c *verifCtx) cancel() {
	if c.err != nil {
		return
	}
	c.err = context.Canceled
	if c.done != nil {
		close(c.done)
	}
	for _, k := range c.children {
		k.cancel()
	}
}

func verifModel_context_Background() context.Context { return &verifCtx{} }

func verifModel_context_WithCancel(parent context.Context) (context.Context, context.CancelFunc) {
	c := &verifCtx{done: make(chan struct{})}
	if p, ok := parent.(*verifCtx); ok {
		if p.err != nil {
			c.cancel()
		} else {
			p.children = append(p.children, c)
		}
	}
	return c, func() { c.cancel() }
}

func verifModel_context_WithDeadline(parent context.Context, d time.Time) (context.Context, context.CancelFunc) {
	return verifModel_context_WithCancel(parent)
}

// Timeouts do not fire inside the model; expiry of a dial is a dialer error.
func verifModel_context_WithTimeout(parent context.Context, d time.Duration) (context.Context, context.CancelFunc) {
	return verifModel_context_WithCancel(parent)
}
