#!/bin/sh
# tools/seedverify.sh OUTDIR — confirm a sub-agent's seeded change from a clean scratch worktree:
# patch applies, builds, existing suite passes with it, demo fails with it and passes without it.
out=$(readlink -f "$1")
export GOFLAGS=-mod=mod GOPROXY=off GOSUMDB=off GOTOOLCHAIN=local
wt=/tmp/seedverify_$$
git -C /repo worktree add -q "$wt" HEAD || exit 3
cd "$wt"
git apply "$out/patch.diff" || { echo "PATCH DOES NOT APPLY"; cd /; git -C /repo worktree remove --force "$wt"; exit 3; }
git diff --stat | tail -1
pkgdir=.
if head -20 "$out/zz_demo_test.go" | grep -q "^package mqtttest"; then pkgdir=mqtttest; fi
go build ./... && echo "build ok"
go test -vet=off -count=1 -timeout 25m ./... 2>&1 | tail -4 | sed 's/^/suite(with): /'
cp "$out/zz_demo_test.go" $pkgdir/zz_demo_test.go
tests=$(grep -o "^func Test[A-Za-z0-9_]*" $pkgdir/zz_demo_test.go | sed 's/func //' | tr '\n' '|' | sed 's/|$//')
echo "demo tests: $tests"
timeout 300 go test -vet=off -count=1 -run "^($tests)\$" ./$pkgdir 2>&1 | tail -3 | sed 's/^/demo(with): /'
rm $pkgdir/zz_demo_test.go
git apply -R "$out/patch.diff"
cp "$out/zz_demo_test.go" $pkgdir/zz_demo_test.go
timeout 300 go test -vet=off -count=1 -run "^($tests)\$" ./$pkgdir 2>&1 | tail -3 | sed 's/^/demo(without): /'
cd /; git -C /repo worktree remove --force "$wt"; git -C /repo worktree prune
