#!/usr/bin/env python3
# Generates /verif/harness/checks.json (the per-property harness table read by gosx check).
import json, os
TECH = "bounded symbolic execution of the real Go code: go/ssa of /repo (+ harness overlay) run path-wise by gosx, inputs/faults as SMT bit-vector variables, assertions discharged by z3 (unsat = holds within bound, sat = model replayed natively)"
def H(name, lemma, quick=None, thorough=None, reach=("end",), **kw):
    d = {"name": name, "lemma": lemma, "quick": quick or {}, "thorough": thorough or {}, "reach": list(reach)}
    d.update(kw)
    return d
def T(params=None, **kw):
    d = {"params": params or {}}
    d.update(kw)
    return d
S = {}
S["C08"] = dict(title="A connection carries whole packets only", technique=TECH, harnesses=[
    H("verifH_C08_writeTo", "L08.a writeTo: accepted bytes are a prefix, nil iff complete, caller's bytes untouched", T({"maxlen":5,"faults":3}), T({"maxlen":7,"faults":4}), ("complete","failed","timeout-seen")),
    H("verifH_C08_writeBuffersTo", "L08.b writeBuffersTo + real net.Buffers.WriteTo/consume", T({"maxhead":4,"maxpayload":3,"faults":3}), T({"maxhead":5,"maxpayload":4,"faults":4}), ("complete","failed","timeout-seen")),
    H("verifH_C08_requests", "L08.c request wrappers: whole packets, failure closes + connPending, success only when complete", T({"faults":2}), T({"faults":3}), ("complete","failed","not-submitted")),
    H("verifH_C05_concurrent", "bounded schedule exploration: two concurrent persisted publishes, <= k preemptions: only whole packets on the wire, tokens returned", T({"preempt":2,"wfaults":0}), T({"preempt":2,"wfaults":1}, time_sec=2400, maxpaths=3000000), ("both-written-in-order","end")),
    H("verifH_C08_concurrent", "bounded schedule exploration: Publish || PublishRetained || the read routine's acknowledgement on a connection whose Write is a scheduling point, one write fault: whole packets only, each at most once, nothing after an incomplete one, success only when complete", T({"preempt":0,"wfaults":1}), T({"preempt":1,"wfaults":0}, time_sec=2400, maxpaths=3000000), ("end",), poolreuse=True),
    H("verifH_C08_poolalias", "pooled packet buffers: while a request's bytes are handed to the Persistence or the connection, another goroutine takes a pool buffer and overwrites it; the wire and the stored record must still be the request's own packet (8 request kinds)", reach=("end","canceled"), poolreuse=True),
    "CONNECT_LIGHT",
  ],
  assumptions=["net.Conn.Write contract: err != nil implies n < len(p); err == nil implies n == len(p)",
    "net.Buffers.WriteTo/consume are executed from SSA on the io.Writer path; *net.TCPConn's writev path is assumed to consume identically",
    "accepted byte counts and fault kinds are case-split exhaustively (forked), byte contents are solver variables"],
  bounds={"quick":"packet <= 5 bytes single buffer / 4+3 bytes vectored, <= 3 faulty Write calls; requests: 6 request kinds, payload <= 2, <= 2 faulty writes","thorough":"packet <= 7 / 5+4 bytes, <= 4 faulty Write calls; requests <= 3 faulty writes; two publishers with 2 preemptions and 1 write fault"},
  outside=["real poll.FD.Writev","TLS record framing","packets longer than the bound","interleavings of concurrent writers beyond the writeSem token argument"])
S["C09"] = dict(title="Emitted packets decode to the request; invalid arguments denied without trace", technique=TECH+"; differential against a reference codec written from the OASIS text", harnesses=[
    H("verifH_C09_strings", "L09.a stringCheck/topicCheck vs RFC 3629 DFA", T({"maxlen":3}), T({"maxlen":5}, time_sec=1500), ("accepted","rejected")),
    H("verifH_C09_stringlimits", "L09.a 65535/65536 limit (concrete content)"),
    H("verifH_C09_publish", "L09.b PUBLISH bytes vs reference, stale pool buffer", T({"maxtopic":2,"maxmsg":2}), T({"maxtopic":4,"maxmsg":3}, time_sec=1500), ("denied","encoded")),
    H("verifH_C09_publishlength", "L09.b PUBLISH header for every payload length 0 .. 2^28+16 at once (length is a solver variable; length-only slice): remaining length exact and minimal at every width, over 268,435,455 refused with IsDeny", reach=("len1","len2","len3","len4","too-big","end")),
    H("verifH_C09_publishsizes", "L09.b remaining-length widths 127/128, 16383/16384"),
    H("verifH_C09_subscribe", "L09.c/e (UN)SUBSCRIBE via the request methods, denial leaves no trace", T({"maxfilter":2}), T({"maxfilter":3}, time_sec=1500), ("denied","encoded","canceled")),
    H("verifH_C09_nofilters", "L09.c no filters"),
    H("verifH_C09_requestsizes", "L09.c SUBSCRIBE/UNSUBSCRIBE remaining length 126..129 and 16382..16385 (concrete long filter)", reach=("encoded","canceled")),
    H("verifH_C09_connectsizes", "L09.d CONNECT with client identifier, user name, password, will topic and will message of 1/255/256/300 bytes, each length chosen independently: every two-byte length prefix and the remaining length vs the reference"  , reach=("encoded",)),
    H("verifH_C09_connect", "L09.d Config.valid + CONNECT bytes vs reference", T({"maxcid":1,"maxuser":1,"maxwtopic":1}), T({"maxcid":1,"maxuser":2,"maxwtopic":2}, time_sec=3600), ("encoded","invalid")),
  ],
  assumptions=["reference encoder/UTF-8 DFA in harness/zz_verif_ref.go is the oracle (written from OASIS MQTT 3.1.1 and RFC 3629)",
    "unicode/utf8.ValidString executed from SSA including its tables (package init run concretely)"],
  bounds={"quick":"strings <= 3 symbolic bytes (+ concrete 65535/65536), topic <= 2, payload <= 2 symbolic bytes + concrete sizes to 16384, <= 2 filters of <= 2 bytes, CONNECT fields <= 1-2 bytes","thorough":"strings <= 5 symbolic bytes, topic <= 4, payload <= 3, filters <= 3 bytes, CONNECT user name and will topic <= 2 symbolic bytes (client identifier 1), and every field at 1/255/256/300 concrete bytes"},
  outside=["strings longer than 5 symbolic bytes (validator is byte-local)","payload *content* for sizes above 16384 bytes (the all-lengths harness checks the header and the size arithmetic; the payload slice is passed through untouched by publishPacket)","SUBSCRIBE/UNSUBSCRIBE packets over 268,435,455 bytes (needs > 4096 filters)","more than 2 filters"])
S["C15"] = dict(title="Stored records round-trip; single-byte damage always detected", technique=TECH+"; inductive hash-step lemma over the real hash/fnv code", harnesses=[
    H("verifH_C15_hashstep", "L15.a one step of real sum32a.Write is injective in state and in byte", reach=("state-injective","byte-injective")),
    H("verifH_C15_hashfold", "L15.a Write over k bytes is the k-fold step"),
    H("verifH_C15_roundtrip", "L15.b layout + round trip via ruggedPersistence", T({"maxbuf":2}), T({"maxbuf":3})),
    H("verifH_C15_decodespec", "L15.c decodeValue accepts iff FNV(data)==BE trailer; <12 refused", T({"maxlen":14}), T({"maxlen":20}), ("short","accepted","refused")),
    H("verifH_C15_damagesum", "L15.c damage in the sum field", T({"maxpacket":2}), T({"maxpacket":4})),
    H("verifH_C15_damagedata", "L15.c damage in one of the last `depth` data bytes, real hash bit-blasted", T({"maxpacket":1,"depth":2}), T({"maxpacket":1,"depth":4}, assert_timeout_ms=300000, time_sec=1500)),
    H("verifH_C15_truncation", "L15.c truncation below 12 bytes", reach=("short",)),
  ],
  assumptions=["paper step: equal-length inputs differing in one byte hash differently follows from the two step-injectivity facts (difference created by byte-injectivity, preserved by state-injectivity) and the fold lemma",
    "the store hands back what was saved (verifStore)"],
  bounds={"quick":"packet <= 4 bytes in <= 3 buffers, free 64-bit sequence number; direct damage check for the last 2 hashed bytes; decode spec for buffers <= 14 bytes","thorough":"packet <= 6 bytes; direct damage check for the last 4 hashed bytes; decode spec <= 20 bytes"},
  outside=["multi-byte damage (32-bit sum; not claimed by the property)","direct (non-inductive) solver confirmation for damage more than 4 hash steps before the end: unknown within 120 s"])
extra = os.path.join(os.path.dirname(__file__), "checks_extra.py")
if os.path.exists(extra):
    exec(open(extra).read())
S["C08"]["harnesses"] = [(_connect_light if h == "CONNECT_LIGHT" else h) for h in S["C08"]["harnesses"]]
json.dump(S, open("/verif/harness/checks.json", "w"), indent=1)
print("wrote", len(S), "properties")
