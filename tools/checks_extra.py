_CONNECT_REACH = ("dial-failed","connect-write-failed","malformed","short","refused","badflags","resend-failed","online")
_connect = H("verifH_C18_connect", "connect() as one operation: dial result, CONNECT bytes vs reference, arbitrary 0..5-byte reply, resend, post-state", T({"cuts":0,"wfaults":1,"shapes":3}), T({"cuts":1,"wfaults":1,"shapes":3}, time_sec=2400, maxpaths=3000000), _CONNECT_REACH)
_connect_t2 = H("verifH_C18_connect", "same, two write faults (thorough tier only)", {"skip":True}, T({"cuts":0,"wfaults":2,"shapes":3}, time_sec=2400, maxpaths=3000000), _CONNECT_REACH)
_connect_t3 = H("verifH_C18_connect", "same, larger pending sets (thorough tier only)", {"skip":True}, T({"cuts":0,"wfaults":1,"shapes":4}, time_sec=3000, maxpaths=3000000), _CONNECT_REACH)
_connect_light = H("verifH_C18_connect", "reconnect through the real connect(): CONNECT, arbitrary 4-byte reply, resend of the pending transfers in order and at the right stage, post-state (reduced configuration space)", {"params":{"cuts":0,"wfaults":1,"shapes":3,"light":1,"second":0}}, {"params":{"cuts":0,"wfaults":2,"shapes":3,"light":1,"second":0},"time_sec":1200}, ("malformed","refused","badflags","resend-failed","online"))
_accept_light = H("verifH_C01_accept", "accept from an arbitrary INV state (at most one write fault)", {"params":{"W":1,"wfaults":1,"storefaults":1}}, {"params":{"W":2,"wfaults":1,"storefaults":1},"time_sec":1500}, ("refused-max","save-failed","enqueued-offline","written","write-broke"))
_compose = H("verifH_C01_compose", "bounded composition from the real initial state (InitSession): k operations out of {publish QoS1/2, connection loss, real connect+resend, PUBACK, PUBREC, PUBCOMP}, optional restart (AdoptSession), then observe + drain against the shadow model", T({"steps":4}), T({"steps":6}, time_sec=3000, maxpaths=5000000), ("end","restarted"))
S["C01"] = dict(title="Accepted QoS>=1 publishes are retransmitted until acknowledged, never lost", technique=TECH+"; one operation from an arbitrary representation-invariant state (ring position free), observed through resend", harnesses=[
    H("verifH_C01_accept", "L01.a accept: Save of the stamped packet, enqueue, first write or exactly one error; failure leaves no trace", T({"W":1,"wfaults":2,"storefaults":1}), T({"W":2,"wfaults":2,"storefaults":1}, time_sec=1500), ("refused-max","save-failed","enqueued-offline","written","write-broke")),
    H("verifH_C01_ack", "L01.c/L03.a PUBACK/PUBREC/PUBCOMP with arbitrary identifier", T({"W":2,"wfaults":1,"storefaults":1}), T({"W":3,"wfaults":2,"storefaults":1}, time_sec=1500), ("puback-applied","puback-delete-failed","puback-rejected","pubcomp-applied","pubcomp-delete-failed","pubcomp-rejected","pubrec-applied","pubrec-rejected","pubrec-save-failed","pubrec-write-failed")),
    H("verifH_C01_resend", "L01.b resend under write and Load faults", T({"W":2,"wfaults":2,"storefaults":1}), T({"W":3,"wfaults":2,"storefaults":1}, time_sec=1500), ("complete","failed")),
    H("verifH_C05_reconnectrace", "an accepted publish racing the read routine's reconnect (Save and Write are scheduling points): both return, everything accepted reaches the new connection", T({"light":1}, time_sec=900), T({"light":0}, time_sec=1800, maxpaths=1000000), ("new-after-old","end")),
    _compose, _connect_light,
    H("verifH_C02_adopt", "across restarts: AdoptSession on an arbitrary PINV store (ring position free, windows straddling the identifier wrap) resends exactly the unacknowledged set and a new publish does not overwrite a pending record", T({"shapes":6}), T({"shapes":10}, time_sec=2400), ("adopted","adopted-twice","drained","adopted-twice-pubrec")),
  ],
  assumptions=["pre-states are arbitrary states satisfying INV-out1/out2/seq of DESIGN 4.1 (counters < 2^62, ring position free); the induction over histories is a paper step",
    "Persistence operations fail without effect (documented contract); Load returns a private copy",
    "net.Conn.Write contract as in C08"],
  bounds={"quick":"in-flight window W<=2 per record run (accept: W<=1), payload <= 1 symbolic byte, <= 2 faulty writes, <= 1 failing store call per operation","thorough":"W<=3 (accept W<=2)"},
  outside=["unbounded liveness (eventually reachable broker)","stores that fail after taking effect","concurrent publishers (token argument, C05)"])
_accept = H("verifH_C01_accept", "L01.a/L17.b/L05.b accept from an arbitrary INV state", T({"W":1,"wfaults":2,"storefaults":1}), T({"W":2,"wfaults":2,"storefaults":1}, time_sec=1500), ("refused-max","save-failed","enqueued-offline","written","write-broke"))
_ack = H("verifH_C01_ack", "L01.c/L03.a PUBACK/PUBREC/PUBCOMP with arbitrary identifier", T({"W":2,"wfaults":1,"storefaults":1}), T({"W":3,"wfaults":2,"storefaults":1}, time_sec=1500), ("puback-applied","pubcomp-applied","pubrec-applied","pubrec-rejected","pubrec-save-failed","pubrec-write-failed"))
_resend = H("verifH_C01_resend", "L01.b resend under faults", T({"W":2,"wfaults":2,"storefaults":1}), T({"W":3,"wfaults":2,"storefaults":1}, time_sec=1500), ("complete","failed"))
_outasm = ["pre-states are arbitrary states satisfying INV-out1/out2/seq of DESIGN 4.1 (counters < 2^62, 14-bit ring position free); the induction over histories is a paper step",
    "Persistence operations fail without effect; Load returns a private copy; net.Conn.Write contract as in C08"]
S["C05"] = dict(title="Publishes and resends keep acceptance order; DUP marks only re-deliveries", technique=TECH+"; one/two operations from an arbitrary INV state, observed through resend", harnesses=[
    H("verifH_C05_reconnectrace", "a publisher racing the read routine's reconnect, the Persistence and the connection being scheduling points: both return (no lock-order deadlock), the new connection carries CONNECT, the pending transfers in order, then the new publish at most once without DUP; observer", T({"light":1}, time_sec=900), T({"light":0}, time_sec=1800, maxpaths=1000000), ("new-after-old","end")),
    H("verifH_C05_concurrent", "bounded schedule exploration: two concurrent publishers on one level, <= k preemptions at channel operations: identifiers distinct, wire order = identifier order, whole packets only, tokens returned", T({"preempt":2,"wfaults":0}), T({"preempt":2,"wfaults":1}, time_sec=2400, maxpaths=3000000), ("both-written-in-order","end")),
    H("verifH_C05_concurrent", "same, 3 preemptions without write faults (thorough tier only)", {"skip":True}, T({"preempt":3,"wfaults":0}, time_sec=900, maxpaths=1000000), ("both-written-in-order","end")),
    H("verifH_C05_order", "L05.a two consecutive accepts: stamps n, n+1, wire order = acceptance order, DUP per written flag", T({"W":1,"wfaults":1}), T({"W":2,"wfaults":2}, time_sec=1500)),
    _accept_light, _resend, _ack, _connect_light],
  assumptions=_outasm+["schedules: serialisation of publishers follows from the single-slot seqSem token held across stamp+Save+enqueue+first write (checked on every sequential path: the token is taken first and returned last); interleavings themselves are not enumerated"],
  bounds={"quick":"W<=2, 2 consecutive publishes, <= 2 faulty writes; 2 concurrent publishers with <= 2 preemptions","thorough":"W<=3; 2 preemptions with 1 write fault, and 3 preemptions without (3 preemptions with a write fault did not finish in 40 min: outside)"},
  outside=["fairness between publishers","more than 2 concurrent publishers or more than 3 preemptions (beyond that: the token argument)"])
S["C17"] = dict(title="In-flight packet identifiers unique and bounded; excess gets ErrMax, no block", technique=TECH, harnesses=[
    H("verifH_C17_limits", "L17.a newClient limit normalisation for every int", reach=("end","zero")),
    H("verifH_C17_ring", "L17.b next identifier differs from every in-flight one while fewer than 0x4000 are in flight (all wrap positions at once)"),
    H("verifH_C17_slots", "L17.d/L11.a startTx/endTx from arbitrary counter and registered keys"),
    H("verifH_C17_slotlimit", "L17.d slot exhaustion gives ErrMax without trace"),
    H("verifH_C14_methods", "L17.d a Subscribe/Unsubscribe that returned (answered, refused, down, canceled, closed, write failed, abandoned, connection lost) holds no identifier slot", T({"wfaults":1,"storefaults":1}), T({"wfaults":2,"storefaults":1}), ("ok","classified","quit")),
    H("verifH_C02_adopt", "L17.e restart: counters rebuilt for every ring position incl. windows straddling the wrap; new publish does not collide", T({"shapes":6}), T({"shapes":10}, time_sec=2400), ("adopted","adopted-twice","drained","adopted-twice-pubrec")),
    _accept, _ack],
  assumptions=_outasm,
  bounds={"quick":"maxima in classes {<0, 0, 1..3, 16383..16384, >16384} with the value free inside; W<=2 concrete in-flight entries; <= 2 pre-registered subscribe/unsubscribe slots at free identifiers","thorough":"W<=3"},
  outside=["performance at 16384 in flight","the 8192-identifier reuse horizon of subscribe/unsubscribe (by design)"])
S["C13"] = dict(title="Hostile broker input: no panic, reset on violation, no forged progress", technique=TECH+"; the inbound packet is an arbitrary buffer served through the real bufio.Reader", harnesses=[
    H("verifH_C13_header", "L13.a remaining-length decoding of 1+5 arbitrary bytes vs the specification's algorithm", reach=("malformed","wellformed-length")),
    H("verifH_C13_packet", "L13.b one packet of arbitrary type/flags/body from an INV state against a shadow model of legitimate steps", T({"W":1,"maxbody":5}), T({"W":2,"maxbody":7}, time_sec=1500), ("violation","legit-publish","legit-ack","legit-pubrel","legit-suback","legit-unsuback","legit-pingresp","violation-suback","legit-duplicate")),
    H("verifH_C06_stream", "L13.d waiting discipline: with PauseTimeout set every read of an incomplete packet and of a BigMessage payload happens under an armed read deadline", T({"packets":1,"cuts":1,"expiries":0,"big":1,"long":1}, time_sec=600), T({"packets":1,"cuts":2,"expiries":1,"big":1,"long":1}, time_sec=2400), ("big-read","stream-end")),
  ],
  assumptions=_outasm+["bufio.Reader is executed from SSA with a 16-byte buffer (readBufSize scaled down); the code compares sizes only with readBufSize"],
  bounds={"quick":"one inbound packet per step, body <= 5 symbolic bytes, W<=1 per outbound run","thorough":"body <= 7 bytes, W<=2"},
  outside=["streams of several hostile packets (error => offline, success => aligned is the inductive step)","bodies longer than the bound","wall-clock waiting"])
_stream = H("verifH_C06_stream", "well-formed stream of 2 packets through real bufio (B=16), arbitrary read cuts; deliveries and acknowledgements vs a reference receiver (alignment, duplicates, PUBREL)",
    T({"packets":2,"cuts":1,"expiries":0,"big":0}, time_sec=900, reach=["slices","stream-end"]), T({"packets":2,"cuts":1,"expiries":0,"big":1}, time_sec=2400, maxpaths=2000000, reach=["slices","big-read","big-skipped","stream-end"]), ("slices","stream-end"))
_stream_pre = H("verifH_C06_stream", "same with a delivery cycle left open by an earlier connection or process (marker of an arbitrary identifier already stored): 2 packets incl. big ones, no cuts; a duplicate of the open cycle (big or not) is skipped, answered, and what follows is handled normally",
    T({"packets":2,"cuts":0,"expiries":0,"big":1,"preowned":1}, time_sec=900, reach=["slices","big-read","big-skipped","stream-end"]), T({"packets":2,"cuts":1,"expiries":0,"big":0,"preowned":1}, time_sec=2400, maxpaths=2000000, reach=["slices","stream-end"]), ("slices","stream-end"))
_stream1 = H("verifH_C06_stream", "same, one packet, two cuts (expiry inside the first buffer-load of a big message)", T({"packets":1,"cuts":2,"expiries":1,"big":1}, time_sec=600), T({"packets":1,"cuts":3,"expiries":1,"big":1}, time_sec=1800, maxpaths=3000000), ("slices","big-read","big-skipped","stream-end","expiry-with-progress"))
_stream1b = H("verifH_C06_stream", "same, one packet, two cuts, two expiries (thorough tier only)", {"skip":True}, T({"packets":1,"cuts":2,"expiries":2,"big":1}, time_sec=900, maxpaths=1000000), ("slices","big-read","big-skipped","stream-end","expiry-with-progress"))
_inasm = ["bufio.Reader executed from SSA with readBufSize scaled to B=16 (the code compares sizes only with readBufSize); topic + 4 <= B",
    "read deadline expiries happen only while a deadline is armed and after progress since arming (the property's premise); the stream ends with EOF",
    "Persistence without faults in this harness; net.Conn.Write without faults"]
S["C06"] = dict(title="Inbound messages are returned byte-exact under any fragmentation and size", technique=TECH+"; real bufio.Reader, read cuts case-split, contents symbolic", harnesses=[_stream1, _stream1b, _stream,
    H("verifH_C06_discard", "skipping an unread big payload: discard(n) for every n (solver variable) consumes exactly n bytes under any fragmentation and up to 3 deadline expiries with progress in between; reads only under an armed deadline", T({"cuts":2,"expiries":3}), T({"cuts":4,"expiries":4}, time_sec=1200), ("two-expiries","end"))],
  assumptions=_inasm,
  bounds={"quick":"B=16; <= 2 packets (PUBLISH q0/q1/q2, PUBREL, PINGRESP), topic 1..2 bytes, payload sizes {0,1,B-h-1..B-h+2,2B+1-h}, <= 1 cut (2 packets) / 2 cuts (1 packet), <= 1 expiry","thorough":"2 packets with big payloads and 1 cut; 1 packet with 3 cuts + 1 expiry, and with 2 cuts + 2 expiries (3 cuts x 2 expiries exceeded 200k paths unfinished and is outside)"},
  outside=["the literal 128 KiB buffer","topics near 65535 bytes","more than 2 packets per stream (alignment after each packet is the inductive step)","CONNACK coalesced with following packets (C18)"])
_c04steps = H("verifH_C04_steps", "L04.b/c marker Save strictly before PUBREC, marker Delete strictly before PUBCOMP, store or write failure keeps the acknowledgement owed and nothing premature on the wire", T({"wfaults":1,"storefaults":1}), T({"wfaults":2,"storefaults":1}), ("marker-save-failed","marker-delete-failed","pubrec-written","pubrec-write-failed","pubcomp-written","pubcomp-write-failed"))
_ackdown = H("verifH_C07_ackwhiledown", "L07.d acknowledgement (PUBACK/PUBREC/PUBCOMP, any identifier) owed while another writer's failure left the write token at connPending and the connection closed: nothing written to the dead connection, the acknowledgement stays owed and is the first and only packet after CONNECT on the next connection", reach=("end",))
_pubreldown = H("verifH_C07_pubrelwhiledown", "L07.d' PUBREL already buffered when another writer's failure closed the connection and left the write token at connPending: marker deleted, nothing written to the dead connection, PUBCOMP stays owed and is the first and only packet after CONNECT on the next connection", reach=("end",))
S["C04"] = dict(title="Exactly-once reception: delivered once per cycle, handshake always answered", technique=TECH+"; reference receiver as oracle", harnesses=[_c04steps, _ackdown, _pubreldown, _stream, _stream1, _stream1b, _stream_pre,
    H("verifH_C13_packet", "L04.a/c single PUBLISH/PUBREL against marker state", T({"W":0,"maxbody":5}), T({"W":0,"maxbody":7}, time_sec=1500), ("legit-duplicate","legit-pubrel","legit-publish"))],
  assumptions=_inasm+["the documented BUG (marker Save failed and the process stopped before recovery) is outside, as the property says"],
  bounds={"quick":"<= 2 inbound packets per stream incl. retransmission of an owned identifier and PUBREL, identifiers free 16-bit","thorough":"as C06 thorough"},
  outside=["restart between delivery and marker Save (see C02 crash-point harness)","BigMessage-sized duplicates beyond 2B+1"])
S["C07"] = dict(title="Inbound acknowledgements go out only after the application took ownership", technique=TECH+"; trace property of consecutive ReadSlices invocations", harnesses=[_c04steps, _stream, _stream1, _stream1b, _stream_pre,
    _ackdown, _pubreldown,
    H("verifH_C10_offline", "connection lost inside a packet or during the skip of an unread big message: the acknowledgement owed for a returned message is sent first on the next connection, none for a message never returned", reach=("offline","skipped-big-acked"))],
  assumptions=_inasm,
  bounds={"quick":"<= 2 inbound packets per stream, every return followed by one more ReadSlices","thorough":"as C06 thorough"},
  outside=["interleavings of concurrent outbound requests with the acknowledgement write (wire integrity is C08's token argument; the state a failed concurrent writer leaves behind is covered by C07_ackwhiledown)"])
S["C02"] = dict(title="Restart resumes exactly the unacknowledged set, at any stop point, repeatedly", technique=TECH+"; AdoptSession run on an arbitrary store content a stop can leave (ring positions, storage sequence numbers and List order free), observed through resend, two generations", harnesses=[
    _accept_light,
    H("verifH_C02_adopt", "adopt an arbitrary PINV store -> observe; publish; stop; adopt again -> observe", T({"shapes":6}), T({"shapes":10}, time_sec=2400), ("adopted","adopted-twice","drained","adopted-twice-pubrec")),
    _compose,
    H("verifH_C02_crash", "crash points of the running process: stop right before each Persistence mutation of accept / PUBACK / PUBREC / PUBCOMP (or after the last); AdoptSession must resume the pending set as before or as after the operation, without warnings, completable", T({"W":2,"maxops":3}), T({"W":3,"maxops":4}, time_sec=2400), ("stopped-mid-operation","stopped-after-operation","end")),
  ],
  assumptions=["PINV (DESIGN 4.1): what a stop can leave is one contiguous run per kind (QoS1 PUBLISH, PUBREL, QoS2 PUBLISH), the PUBREL run directly before the QoS2 PUBLISH run, storage sequence numbers ascending within a run; that every operation re-establishes it is shown by the C01 harnesses (the record written/deleted per operation) — paper step",
    "the store honours the Persistence contract (FileSystem's adherence under stops is C19)", "sort.Slice is modelled as insertion sort calling the real less closure"],
  bounds={"quick":"<= 1 record per run (3 runs), + marker, 3 List orders, 3 limit configurations, 2 generations","thorough":"<= 2 records per run"},
  outside=["more than one record with a Save in progress","stores violating the contract"])
S["C16"] = dict(title="A damaged Persistence never bricks the session: adopt, warn, connect, go on", technique=TECH+"; AdoptSession on a damaged arbitrary PINV store, observed through resend and a follow-up publish", harnesses=[
    H("verifH_C16_adopt", "PINV store with <= k outbound records altered / truncated / removed, stray entries, limits in 3 classes: no fatal, warnings for unusable/abandoned records, resend succeeds with genuine packets in order, placeholders match, new publish does not collide", T({"W":2,"W1":1,"damage":1,"orders":1,"markers":1,"maxcls":1,"strays":2}, time_sec=900), T({"W":1,"damage":2,"orders":2,"markers":1,"maxcls":2,"strays":3}, time_sec=1800, maxpaths=5000000), ("abandoned-with-warning","end")),
    H("verifH_C16_adopt", "same, runs with records already missing inside (several gaps in one run, gaps of 1 or 2 identifiers, ring position free)", T({"W":1,"W1":3,"W1min":2,"sparse":1,"damage":0,"orders":1,"markers":1,"maxcls":1,"strays":1}, time_sec=900), T({"W":1,"W1":4,"W1min":2,"sparse":1,"damage":1,"orders":1,"markers":1,"maxcls":1,"strays":1}, time_sec=2400, maxpaths=5000000), ("abandoned-with-warning","end")),
    H("verifH_C16_adopt", "same for the exactly-once level: one PUBREL followed by a run of 2..3 PUBLISH records with gaps anywhere (at the junction, inside the run)", T({"W":1,"W1":0,"WRmin":1,"WP":3,"WPmin":2,"sparse":1,"damage":0,"orders":1,"markers":1,"maxcls":1,"strays":1}, time_sec=900), T({"W":1,"W1":0,"WRmin":1,"WP":4,"WPmin":2,"sparse":1,"damage":0,"orders":2,"markers":1,"maxcls":1,"strays":1}, time_sec=2400, maxpaths=2000000), ("abandoned-with-warning","end")),
    H("verifH_C16_clientid", "damaged client-identifier record: reported, or a connect can succeed", reach=()),
  ],
  assumptions=["records forged with a valid checksum are excluded (as the property says); damage is modelled as a failing checksum, a value shorter than 12 bytes, or removal (detection itself is C15)",
    "observer = resend onto a fault-free connection; 'can connect' is judged by resend returning nil (connect's own protocol is C18)"],
  bounds={"quick":"<= 2 records per run (<= 6 outbound), 1 damaged, 3 damage kinds, stray entries, ring positions and storage sequence numbers free","thorough":"2 damaged records with <= 1 record per run (<= 3 outbound); sparse runs of <= 4 at-least-once records with 1 further damage. (2 damaged records with 2 records per run did not finish in 20 min and is outside.)"},
  outside=["more than 2 damaged records at once","damage to inbound markers (F11 covers the client-identifier record; the marker case shares its code path)"])
_ack_foreign = H("verifH_C01_ack", "same one-step lemmas from the state another routine's failed write leaves (connection closed by that writer, write token at connPending): PUBACK/PUBREC/PUBCOMP still applied to store and counters, the PUBREL that cannot be written is saved first and is what the next connection carries", T({"W":2,"wfaults":0,"storefaults":1,"foreign":1}), T({"W":3,"wfaults":0,"storefaults":1,"foreign":1}), ("pubrec-write-failed","puback-applied","pubcomp-applied"))
S["C03"] = dict(title="Exactly-once publish: no PUBLISH after recorded PUBREC; PUBREL until PUBCOMP", technique=TECH+"; one-step lemmas from INV states plus a composition PUBREC -> reconnect -> restart -> PUBCOMP -> publish", harnesses=[
    _accept_light, _connect_light,
    H("verifH_C03_cycle", "PUBREC (with store/write faults) -> resend in the same process -> AdoptSession -> resend -> PUBCOMP -> new publish", T({"W":1,"wfaults":1,"storefaults":1}), T({"W":2,"wfaults":2,"storefaults":1}, time_sec=1500), ("recorded","not-recorded","completed")),
    _ack, _ack_foreign, _resend,
    H("verifH_C17_ring", "L03.c identifier not reused while fewer than 0x4000 in flight (all wrap positions)"),
    H("verifH_C02_adopt", "L03.b restart resumes each transfer at its stage (PUBREL vs PUBLISH by stored packet type)", T({"shapes":6}), T({"shapes":10}, time_sec=2400), ("adopted","adopted-twice","drained","adopted-twice-pubrec")),
  ],
  assumptions=_outasm+["broker-side consequence (forwards exactly once) is the paper step from these facts against the MQTT 3.1.1 receiver rules"],
  bounds={"quick":"W<=2 per run, <= 1 faulty store call and write per step, 1 restart","thorough":"W<=3"},
  outside=["a broker that forwards on PUBLISH and forgets the identifier before PUBREL (non-conforming)"])
S["C20"] = dict(title="mqtttest doubles flag every deviation and mimic the client's contract", technique=TECH+" (package mqtttest closures, testing.TB replaced by a counting double)", harnesses=[
    H("verifH_C20_publishmock", "L20.a publish mock: failure iff some call deviates in message or topic, is unwanted, or calls are missing", T({"maxcalls":2}), T({"maxcalls":3}), pkg="mqtttest"),
    H("verifH_C20_subscribemock", "L20.b (un)subscribe mock: filter sets compared as sets, call count", T({"maxcalls":2}), T({"maxcalls":3}), pkg="mqtttest"),
    H("verifH_C20_stubs", "L20.c stubs: private copies, closed quit => ErrCanceled", pkg="mqtttest"),
    H("verifH_C20_exchange", "L20.d exchange stub: constructor panics iff documented misuse; delivers script in order; closed unless script ends in ErrClosed / indefinite block", reach=("misuse","closed","left-open"), pkg="mqtttest"),
  ],
  assumptions=["testing.TB is a counting double (Errorf/Error/Fatalf/Cleanup/Helper); Fatalf is modelled as a panic caught by the harness", "time.Sleep returns immediately in the model"],
  bounds={"quick":"<= 2 expectations, <= 2 calls, messages <= 1 byte, topics/filters 1 symbolic byte, <= 2 filters per call; scripts of <= 3 entries","thorough":"<= 3 calls"},
  outside=["longer expectation lists","real *testing.T behaviour (Goexit on Fatalf)"])
S["C18"] = dict(title="Connection set-up: CONNECT first, clean session once, resend before new", technique=TECH, harnesses=[_connect, _connect_t2, _connect_t3,
    H("verifH_C18_lockwrite", "requests in each connect phase: down => ErrDown, pending waits for the outcome, quit => ErrCanceled", reach=("down","pending-quit","pending-online","pending-down")),
  ],
  assumptions=_outasm+["dialer returns the harness connection or an error; TLS and real dialers are not encoded",
    "the abort goroutine of dialAndConnect runs in the engine's cooperative scheduler; no cancellation in this harness (C12 covers it)",
    "write faults on packets longer than 3 bytes are case-split at offsets 0, 1 and len-1"],
  bounds={"quick":"pending shapes {none, 1 QoS1 + 1 PUBREL, 1 PUBREL + 1 QoS2}, client id <= 1 byte, options {none, user+password, will}, reply 0..5 arbitrary bytes then EOF or silence, <= 1 write fault","thorough":"three configurations: 1 read cut x 1 write fault x 3 shapes; 2 write faults x 3 shapes; 1 write fault x 4 shapes (+ {2 QoS1, 1 PUBREL, 2 QoS2}); their product is outside (did not finish in 20 min)"},
  outside=["TLS / real net dialers","more than one reconnect in a row (each connect starts from an INV state)"])
S["C10"] = dict(title="The read routine never wedges: failed connections are left and redialed", technique=TECH+"; polling loops bounded by unwinding, a loop that polls an unchanged state is a wedge", harnesses=[
    H("verifH_C10_foreignfailure", "L10.b another goroutine's write failure left connPending while the read routine owes PUBACK/PUBREC/PUBCOMP/PUBREL: ReadSlices must return or redial", T({"spin":24}), T({"spin":48}), ("redialed",)),
    H("verifH_C10_stalledwrite", "L10.c the read routine gives up the connection while another goroutine is stalled in a Write without deadline, holding the write token: toOffline returns (it closes first), the writer is released with an error, the next connection works"),
    H("verifH_C10_offline", "L10.a stream truncated at any byte (incl. inside a big duplicate): error, offline, pending subscribe and ping released with ErrBreak", reach=("offline",)),
    H("verifH_C10_backoff", "L10.d ReadBackoff durations for free ReconnectWaitMin/Max and ramp state", reach=("end","ramp")),
    _connect,
  ],
  assumptions=_outasm+["foreign writers close the connection and leave connPending on a failed transfer (shown by C08's request harness)",
    "time.NewTicker channels are always ready and yield to other goroutines; time.AfterFunc does not fire inside the model, only its duration is checked"],
  bounds={"quick":"polling loops unwound 24 times; <= 3 ReadSlices calls; 1 truncated packet","thorough":"48 iterations"},
  outside=["true liveness under an adversarial scheduler","wall-clock promptness"])
S["C12"] = dict(title="Close and Disconnect end the client from any state, promptly and for good", technique=TECH+"; cooperative goroutine model with deadlock detection", harnesses=[
    H("verifH_C12_closeduringdial", "L12.b' Close/Disconnect issued while ReadSlices is inside a Dialer that ends only with its context (PauseTimeout set but far away): both return, ReadSlices reports ErrClosed, no goroutine left", reach=("closed",)),
    H("verifH_C12_closeduringhandshake", "L12.b Close/Disconnect issued while the handshake reads CONNACK: both return, no goroutine left, signals and semaphores final", reach=("closed",)),
    H("verifH_C12_states", "L12.a/c Close/Disconnect from each sequential state (with pending transfers, a persisted publish whose submission error is unread, a pending subscribe), then every method reports ErrClosed; termCallbacks", T({"wfaults":1}), T({"wfaults":1}, time_sec=2400), ("closed","api-exchange")),
    H("verifH_C12_concurrent", "bounded schedule exploration: Close || Close/Disconnect(nil)/Disconnect(closed quit) || a writer in flight (Write is a scheduling point), <= k preemptions: all return, semaphores closed once, signals final, DISCONNECT last", T({"preempt":1}), T({"preempt":2}, time_sec=2400, maxpaths=3000000), ("end","interrupted")),
  ],
  assumptions=["goroutines are scheduled cooperatively: switches at channel operations, mutexes, explicit yields; interleavings are forked at each point where more than one goroutine can run"],
  bounds={"quick":"2-3 goroutines, states {never connected, down, online, closed}, quit {nil, closed}","thorough":"same"},
  outside=["preemption inside straight-line code","wall-clock promptness","runtime-level goroutine/descriptor leaks"])
S["C14"] = dict(title="Errors stay in documented classes; 'not submitted' means no byte was sent", technique=TECH+"; error values are concrete object graphs walked by errors.Is/As models, feasibility of each path decided by the solver", harnesses=[
    H("verifH_C12_states", "ReadBackoff/Backoff are nil for the ErrClosed reported after Close/Disconnect from each state (down, online, closed; pending transfers)", T({"wfaults":0}), T({"wfaults":1}, time_sec=2400), ("closed",)),
    H("verifH_C14_classifiers", "L14.c IsDeny/IsEnd/Backoff/ReadBackoff vs errors.Is over error trees (wrap, multi-%w, Join of 2 and 3, custom Is, nil Unwrap); classifiers leave their argument unchanged", T({"depth":2,"leaves":7}), T({"depth":2,"leaves":10}, time_sec=2400, maxpaths=3000000)),
    H("verifH_C14_methods", "L14.a/b each request method x {down, online with write fault, closed} x quit x response {answer, broker failure, connection loss, close}: documented classes, not-submitted => no byte", T({"wfaults":1,"storefaults":1}), T({"wfaults":2,"storefaults":1}), ("ok","classified","not-submitted","quit")),
    H("verifH_C08_requests", "not-submitted classes wrote nothing; failed transfer is ErrSubmit", T({"faults":2}), T({"faults":3}), ("complete","failed","not-submitted")),
  ],
  assumptions=["errors.Is/As are engine models of the documented tree walk calling the real Is/Unwrap methods; errors.Join and its Unwrap are executed from SSA (aliasing of the joined slice is visible)",
    "fmt.Errorf is modelled structurally: %w operands become Unwrap children, texts are not modelled"],
  bounds={"quick":"error trees of depth <= 2 (<= 7 nodes) over 7 leaf kinds; one request per path, <= 1 write fault, <= 1 store fault","thorough":"10 leaf kinds"},
  outside=["error texts","pending-connect state for blocking requests (C18 lockwrite harness)"])
S["C11"] = dict(title="Every request completes and gets its own response", technique=TECH+"; arbitrary response bodies against registered requests; scripted interleaving through a guarded hook point for the ping slot", harnesses=[
    H("verifH_C11_correlation", "L11.b SUBACK/UNSUBACK with arbitrary identifier and codes against 1..2 registered requests at free identifiers: only the addressed one is answered, SubscribeError lists its own failed filters in order", reach=("granted","failed-filters","unsuback","count-mismatch","unsolicited-tolerated")),
    H("verifH_C11_offlinerace", "the same race with a Ping instead of the Subscribe (toOffline || a publish inside its slow write || Ping being submitted; Write and Close are scheduling points): the Ping returns whatever the interleaving", T({"preempt":0,"ping":1,"sub":0}), T({"preempt":1,"ping":1,"sub":0}, time_sec=1200, maxpaths=2000000)),
    H("verifH_C11_offlinerace", "bounded schedule exploration: the read routine's toOffline || a publish inside its slow write || a Subscribe being submitted (Write and Close are scheduling points): every request returns, no slot left", T({"preempt":0,"ping":0}), T({"preempt":1,"ping":0}, time_sec=2400, maxpaths=3000000), ("end",)),
    H("verifH_C11_pingslot", "L11.d Ping A's submission fails; read routine goes offline; Ping B installs its callback before A cleans up: B must still be answered", reach=()),
    H("verifH_C17_slots", "L11.a startTx/endTx"),
    H("verifH_C14_methods", "L11.c every Subscribe/Unsubscribe/Ping call returns under answer / broker failure / connection loss / close / quit", T({"wfaults":1,"storefaults":1}), T({"wfaults":2,"storefaults":1}), ("ok","classified","quit")),
    H("verifH_C10_offline", "connection loss releases pending subscribe and ping with ErrBreak", reach=("offline",)),
  ],
  assumptions=["hook point verifHookPoint(\"ping:submit-failed\") in Ping (build tag verif, no-op otherwise) lets the harness place the read routine's toOffline and the second Ping between the failed write and the slot clean-up; the interleaving itself is one the Go scheduler may produce",
    "cooperative goroutine model; ticker-driven polling runs only when nothing else can"],
  bounds={"quick":"<= 2 registered requests, <= 2 filters, SUBACK bodies of 3..4 bytes; 2 pings","thorough":"same"},
  outside=["the 8192-identifier reuse horizon (by design)","more than 2 concurrent requests except through the per-slot argument"])
S["C19"] = dict(title="FileSystem store: Save and Delete are atomic per key across process stops", technique=TECH+"; the real fileSystem methods run against a modelled file system, the stop point is a case-split index into the modelled system calls", harnesses=[
    H("verifH_C19_atomic", "Save/Delete of one key: stop before every call and inside the data write, or one failing call; a fresh process then Loads and Lists", T({"maxcalls":8}), T({"maxcalls":10}), ("saved","save-failed","stopped","deleted","end"), engine_replay=True),
    H("verifH_C19_concurrent", "Save(k1) running concurrently with Save / Delete / List+Load on another key, every modelled system call a scheduling point: each operation has the effect it has alone, readers see complete values only, no spool file left", T({"faults":0}, time_sec=900), T({"faults":1}, time_sec=2400, maxpaths=2000000), engine_replay=True),
    H("verifH_C19_names", "file(k1) != file(k2), spoolFile != file for all keys < 2^17 (exact %05x model)", reach=("distinct",), engine_replay=True),
    H("verifH_C19_parse", "ParseUint(file(k), 16, 17) == k for all keys < 2^17 (real strconv)", engine_replay=True),
  ],
  assumptions=["file-system model (trusted): create-truncate, write (partial on failure or stop), sync, close, rename (atomic replace, POSIX), remove, readdirnames, readfile; a killed process keeps the effects of completed calls and an arbitrary prefix of the write in progress",
    "fmt.Sprintf(\"%s%05x\") is modelled exactly on bit-vectors; package os is intercepted onto the model, so counterexamples are re-executed concretely in the engine, not natively",
    "kernel-level rename atomicity and fsync durability are axioms; concurrent operations on the same key are outside (the property claims different keys; two Saves of one key share the spool file)"],
  bounds={"quick":"one key with absent/complete previous value, value of 13..14 symbolic bytes in 2 buffers, optional leftover spool file, stop at any of <= 8 calls or 1 failing call","thorough":"<= 10 calls"},
  outside=["the kernel","values of several MiB","more than two concurrent operations; concurrent operations on the same key"])
