S["C01"] = dict(title="Accepted QoS>=1 publishes are retransmitted until acknowledged, never lost", technique=TECH+"; one operation from an arbitrary representation-invariant state (ring position free), observed through resend", harnesses=[
    H("verifH_C01_accept", "L01.a accept: Save of the stamped packet, enqueue, first write or exactly one error; failure leaves no trace", T({"W":1,"wfaults":2,"storefaults":1}), T({"W":2,"wfaults":2,"storefaults":1}, time_sec=1500), ("refused-max","save-failed","enqueued-offline","written","write-broke")),
    H("verifH_C01_ack", "L01.c/L03.a PUBACK/PUBREC/PUBCOMP with arbitrary identifier", T({"W":2,"wfaults":1,"storefaults":1}), T({"W":3,"wfaults":2,"storefaults":1}, time_sec=1500), ("puback-applied","puback-delete-failed","puback-rejected","pubcomp-applied","pubcomp-delete-failed","pubcomp-rejected","pubrec-applied","pubrec-rejected","pubrec-save-failed","pubrec-write-failed")),
    H("verifH_C01_resend", "L01.b resend under write and Load faults", T({"W":2,"wfaults":2,"storefaults":1}), T({"W":3,"wfaults":2,"storefaults":1}, time_sec=1500), ("complete","failed")),
  ],
  assumptions=["pre-states are arbitrary states satisfying INV-out1/out2/seq of DESIGN 4.1 (counters < 2^62, ring position free); the induction over histories is a paper step",
    "Persistence operations fail without effect (documented contract); Load returns a private copy",
    "net.Conn.Write contract as in C08"],
  bounds={"quick":"in-flight window W<=2 per record run (accept: W<=1), payload <= 1 symbolic byte, <= 2 faulty writes, <= 1 failing store call per operation","thorough":"W<=3 (accept W<=2)"},
  outside=["unbounded liveness (eventually reachable broker)","stores that fail after taking effect","concurrent publishers (token argument, C05)"])
_accept = H("verifH_C01_accept", "L01.a/L17.b/L05.b accept from an arbitrary INV state", T({"W":1,"wfaults":2,"storefaults":1}), T({"W":2,"wfaults":2,"storefaults":1}, time_sec=1500), ("refused-max","save-failed","enqueued-offline","written","write-broke"))
_ack = H("verifH_C01_ack", "L01.c/L03.a PUBACK/PUBREC/PUBCOMP with arbitrary identifier", T({"W":2,"wfaults":1,"storefaults":1}), T({"W":3,"wfaults":2,"storefaults":1}, time_sec=1500), ("puback-applied","pubcomp-applied","pubrec-applied","pubrec-rejected","pubrec-save-failed","pubrec-write-failed"))
_resend = H("verifH_C01_resend", "L01.b resend under faults", T({"W":2,"wfaults":2,"storefaults":1}), T({"W":3,"wfaults":2,"storefaults":1}, time_sec=1500), ("complete","failed"))
_outasm = ["pre-states are arbitrary states satisfying INV-out1/out2/seq of DESIGN 4.1 (counters < 2^62, 14-bit ring position free); the induction over histories is a paper step",
    "Persistence operations fail without effect; Load returns a private copy; net.Conn.Write contract as in C08"]
S["C05"] = dict(title="Publishes and resends keep acceptance order; DUP marks only re-deliveries", technique=TECH+"; one/two operations from an arbitrary INV state, observed through resend", harnesses=[
    H("verifH_C05_order", "L05.a two consecutive accepts: stamps n, n+1, wire order = acceptance order, DUP per written flag", T({"W":1,"wfaults":1}), T({"W":2,"wfaults":2}, time_sec=1500)),
    _accept, _resend, _ack],
  assumptions=_outasm+["schedules: serialisation of publishers follows from the single-slot seqSem token held across stamp+Save+enqueue+first write (checked on every sequential path: the token is taken first and returned last); interleavings themselves are not enumerated"],
  bounds={"quick":"W<=2, 2 consecutive publishes, <= 2 faulty writes","thorough":"W<=3"},
  outside=["fairness between publishers","enumeration of goroutine interleavings (replaced by the token argument)"])
S["C17"] = dict(title="In-flight packet identifiers unique and bounded; excess gets ErrMax, no block", technique=TECH, harnesses=[
    H("verifH_C17_limits", "L17.a newClient limit normalisation for every int", reach=("end","zero")),
    H("verifH_C17_ring", "L17.b next identifier differs from every in-flight one while fewer than 0x4000 are in flight (all wrap positions at once)"),
    H("verifH_C17_slots", "L17.d/L11.a startTx/endTx from arbitrary counter and registered keys"),
    H("verifH_C17_slotlimit", "L17.d slot exhaustion gives ErrMax without trace"),
    _accept, _ack],
  assumptions=_outasm,
  bounds={"quick":"maxima in classes {<0, 0, 1..3, 16383..16384, >16384} with the value free inside; W<=2 concrete in-flight entries; <= 2 pre-registered subscribe/unsubscribe slots at free identifiers","thorough":"W<=3"},
  outside=["performance at 16384 in flight","the 8192-identifier reuse horizon of subscribe/unsubscribe (by design)"])
S["C13"] = dict(title="Hostile broker input: no panic, reset on violation, no forged progress", technique=TECH+"; the inbound packet is an arbitrary buffer served through the real bufio.Reader", harnesses=[
    H("verifH_C13_header", "L13.a remaining-length decoding of 1+5 arbitrary bytes vs the specification's algorithm", reach=("malformed","wellformed-length")),
    H("verifH_C13_packet", "L13.b one packet of arbitrary type/flags/body from an INV state against a shadow model of legitimate steps", T({"W":1,"maxbody":5}), T({"W":2,"maxbody":7}, time_sec=1500), ("violation","legit-publish","legit-ack","legit-pubrel","legit-suback","legit-unsuback","legit-pingresp","violation-suback","legit-duplicate")),
  ],
  assumptions=_outasm+["bufio.Reader is executed from SSA with a 16-byte buffer (readBufSize scaled down); the code compares sizes only with readBufSize"],
  bounds={"quick":"one inbound packet per step, body <= 5 symbolic bytes, W<=1 per outbound run","thorough":"body <= 7 bytes, W<=2"},
  outside=["streams of several hostile packets (error => offline, success => aligned is the inductive step)","bodies longer than the bound","wall-clock waiting"])
