#!/usr/bin/env python3
import json
props=[json.loads(l) for l in open('/verif/properties.jsonl')]
specs=json.load(open('/verif/harness/checks.json'))
na_reasons=json.load(open('/verif/tools/not_applicable.json')) if __import__('os').path.exists('/verif/tools/not_applicable.json') else {}
notes=json.load(open('/verif/tools/level_notes.json')) if __import__('os').path.exists('/verif/tools/level_notes.json') else {}
m={"version":1,
 "setup_cmd":"cd /verif/engine && GOFLAGS=-mod=mod GOPROXY=off GOSUMDB=off GOTOOLCHAIN=local go build -o ../bin/gosx . && cd /verif && bin/gosx list >/dev/null && bin/gosx selftest -n 8",
 "hooks":{"guard":"verif","enable":"harness files /verif/harness/zz_verif_*.go (all //go:build verif) are injected into package mqtt by overlay: go/packages Overlay + -tags=verif for the symbolic run, go test -tags verif -overlay for native replay; besides that, /repo carries one guarded hook commit: hooks_verif.go / hooks_off.go and one verifHookPoint call in Ping (no-op without the tag)","baseline_off_cmd":"cd /repo && go test -vet=off -count=1 -timeout 25m ./...","source_commits":[__import__("subprocess").check_output(["git","-C","/repo","log","--format=%H","-1","--grep","verif hook"]).decode().strip()],"add_only":True},
 "engines":[{"name":"gosx","path":"/verif/engine","serves_properties":sorted(k for k in specs if k.startswith('C')),"kind_free_text":"home-made path-wise symbolic executor for Go SSA (golang.org/x/tools/go/ssa v0.29.0) with z3 5.1.0 (z3-new) as deciding back end, z3 4.8.12 / cvc5 1.0 selectable; counterexamples replayed natively with go test -overlay"}],
 "checks":[], "not_applicable":[],
 "notes":"All checks are bounded: see evidence 'bounds' and DESIGN.md section 5. exit 2 = inconclusive (never counted as pass)."}
for p in props:
    pid=p['id']
    if pid in specs:
        s=specs[pid]
        m['checks'].append({"property_id":pid,
          "quick_cmd":f"./check {pid} --tier quick","thorough_cmd":f"./check {pid} --tier thorough",
          "evidence_file":f"/verif/evidence/{pid}.json","replay_cmd_template":f"./check {pid} --replay {{path}}","engine":"gosx",
          "level_claimed":{"category":"model_checking","text":notes.get(pid,{}).get("text","Bounded symbolic model checking of the real functions: every input/fault within the stated bounds is covered by a solver query (unsat) or term rewriting; outside the bounds nothing is claimed."),"design_ref":"DESIGN.md section 5, "+pid},
          "level_note":"; ".join(s.get('assumptions',[]))[:1500] or "-",
          "technique":"solver-based bounded symbolic execution of the real Go code (go/ssa -> gosx -> z3), native replay of counterexamples"})
    else:
        m['not_applicable'].append({"property_id":pid,"reason":na_reasons.get(pid,"check not built yet (engine under construction); core encodable, see DESIGN.md section 5")})
json.dump(m,open('/verif/MANIFEST.json','w'),indent=1)
print(len(m['checks']),'checks',len(m['not_applicable']),'n/a')
