#!/bin/sh
# tools/seedreg.sh DIR... — regression over stored seeded changes: runs the property's quick check restricted to the
# harness recorded as catching it (meta.json check_result), in a scratch worktree; prints one line per change.
for d in "$@"; do
  d=$(readlink -f "${d%/}")
  p=$(basename $d | cut -d- -f1)
  h=$(grep -o 'verifH_[A-Za-z0-9_]*' $d/meta.json | head -1)
  wt=/tmp/seedreg_$$
  git -C /repo worktree add -q "$wt" HEAD || exit 3
  if ! git -C "$wt" apply "$d/patch.diff"; then echo "$(basename $d) PATCH DOES NOT APPLY"; git -C /repo worktree remove --force "$wt"; continue; fi
  if [ -n "$h" ]; then only="--only $h"; else only=""; fi
  r=$(cd /verif && VERIF_REPO="$wt" timeout 1500 ./check $p --no-evidence $only 2>&1 | grep -E "^VIOLATION|^INCONCLUSIVE|tier=" | head -1 | cut -c1-70)
  case "$r" in VIOLATION*) ;; *)
    # the recorded harness did not catch it: try the whole check
    r=$(cd /verif && VERIF_REPO="$wt" timeout 2400 ./check $p --no-evidence 2>&1 | grep -E "^VIOLATION|tier=" | head -1 | cut -c1-70); r="(whole check) $r";;
  esac
  echo "$(basename $d) $h $r"
  git -C /repo worktree remove --force "$wt"; git -C /repo worktree prune
done
