#!/bin/sh
# tools/seedtest.sh PATCH PROP [PROP...] — apply a patch to a scratch worktree of /repo, run the quick checks
# against it (VERIF_REPO), remove the worktree. /repo itself is not touched.
patch=$(readlink -f "$1"); shift
wt=/tmp/seedrepo_$$
git -C /repo worktree add -q "$wt" HEAD || exit 3
git -C "$wt" apply "$patch" || { echo "PATCH DOES NOT APPLY"; git -C /repo worktree remove --force "$wt"; exit 3; }
(cd "$wt" && GOFLAGS=-mod=mod GOPROXY=off go build ./... 2>&1 | head -3)
for p in "$@"; do
  cd /verif && VERIF_REPO="$wt" timeout 1500 ./check $p --no-evidence 2>&1 | grep -E "VIOLATION|INCONCLUSIVE|KNOWN|tier=" | cut -c1-260 | head -6
done
git -C /repo worktree remove --force "$wt"; git -C /repo worktree prune
