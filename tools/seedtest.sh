#!/bin/sh
# tools/seedtest.sh PATCH PROP [PROP...] — apply a patch to /repo, run the quick checks, always revert
patch=$1; shift
git -C /repo apply "$patch" || { echo "PATCH DOES NOT APPLY"; exit 3; }
(cd /repo && go build ./... 2>&1 | head -3)
for p in "$@"; do
  cd /verif && timeout 1500 ./check $p --no-evidence 2>&1 | grep -E "VIOLATION|INCONCLUSIVE|KNOWN|tier=" | cut -c1-260 | head -6
done
git -C /repo checkout -- . ; git -C /repo status --short | head -3
