#!/bin/sh
# tools/mut.sh FILE 'sed-expr' PROP [args...]  — apply a mutation to /repo, run the check, always revert
f=$1; expr=$2; shift 2
cd /repo && cp $f /tmp/mut_backup_$$ && sed -i "$expr" $f
if cmp -s $f /tmp/mut_backup_$$; then echo "MUTATION DID NOT APPLY"; rm /tmp/mut_backup_$$; exit 3; fi
git -C /repo diff --stat | tail -1
(go build ./... 2>&1 | head -3)
cd /verif && timeout 1200 ./check "$@" --no-evidence 2>&1 | grep -v "^  harness" | cut -c1-220 | tail -6
cp /tmp/mut_backup_$$ /repo/$f; rm /tmp/mut_backup_$$
git -C /repo status --short | head -3
